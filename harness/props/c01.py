"""C01 — every IntervalSet is canonical and covers the union of its inputs."""
import itertools
import numpy as np, pandas as pd
from ..common import enc, ns, ns_arr
from .. import gen
from ..impl import nap, farr, iset, iset_ns, is_canonical_ns

RULE = ("constructor: every multiset of <=3 (quick; thorough <=4) (start,end) pairs over the grid {0..4}^2 "
        "(zero-length, inverted, nested, overlapping, touching, duplicated pairs; every order type), each at one of the "
        "lattice scales 0.5us / 1us / 2us / 1ms / 2^-9 s / 1 s (so the 1us trim is smaller than, equal to and larger than "
        "an interval), through the input forms two arrays / array of pairs / DataFrame / scalars / IntervalSet (also re-read in another unit) / unsigned, int32 and float32 arrays and the units "
        "s, ms, us, in a random presentation order; seeded random sets of <=12 pairs; operations: union, intersect, set_diff, "
        "split, merge_close_intervals, drop_short/long, indexing, time_span, find_support, dropna/threshold supports on "
        "sampled canonical operands. distinct = distinct (multiset of pairs, scale); non-trivial = at least one pair")
PROVED = ("mk_canonical: for ANY finite list of pairs (any order, any degeneracy) the model constructor returns "
          "end>start, end[i]<start[i+1], starts strictly increasing (fixIset_canonical by loop invariant + sortedness of "
          "insertion sort); union/intersect/diff_canonical (they re-enter the constructor); coverage clause: mk_sound (ANY input: every "
          "instant of the result lies in an input pair, although starts and ends are sorted independently - counting argument) and "
          "mk_complete (pairs with start <= end: every instant of an input pair that is not an endpoint and not in the microsecond before "
          "a start lies in the result; zero-length inputs vanish). C01Ops (closure under the other methods, each modelled as the arrays it "
          "hands to the constructor): select_eq / dropShort_eq / dropLong_eq / extract_eq / getIdx_one (mask, slice, drop_short/long, ep[i] "
          "return exactly the selected rows), getIdx_canonical + getIdx_sound (any positions), timeSpan_eq + timeSpan_covers, mergeClose_eq "
          "(the two masked arrays of the Python text are the greedy merge and the constructor leaves it unchanged), mergeClose_covers, "
          "mergeClose_only (adds only gaps <= threshold), mergeGo_neg, findSupport_eq / _covers / findGo_endpoints (min_gap >= 1us), "
          "findSupport_canonical (any gap), split_canonical + split_sound, tgetIdx/tintersect/tdiff_canonical")
NOT_PROVED = ("metadata carried by these methods (C13); the float comparisons `duration > threshold` (thresholds are taken half a lattice step away "
              "from every duration so that float and integer comparisons agree); find_support with min_gap < 1 us is only shown canonical")
EXTRA_MODULES = ["C01Ops"]
ASSUMPTIONS = ["np.sort returns a sorted permutation", "float endpoints compare like their integer-ns images (DESIGN 2.3)"]

SCALES = [500, 1000, 2000, 10**6, 1953125, 10**9]


def in_union(x, pairs):
    return any(s <= x <= e for s, e in pairs if s < e)


def coverage_ok(pairs, out):
    """pairs, out in ns.  Exact reading of the coverage clause: x in output => x in the closed union of the inputs (s<e); x in the
    union and not in the output is allowed only in the microsecond before the start s of a real input (s, c), c > s, that the union does
    not run across (every input holding x ends at or before s): the touch separation.  Returns (message, finding_ctx)."""
    pts = sorted(set(itertools.chain.from_iterable(pairs)))
    probes = set()
    for p in pts:
        probes.update([p, p - 1001, p + 1001, p - 1, p + 1, p - 500, p - 1000, p - 999])
    for a, b in zip(pts, pts[1:]):
        probes.add((a + b) // 2)
    for s, e in out:
        probes.update([s, e, s + 1, e - 1])
    real = [(a, b) for a, b in pairs if a < b]
    for x in sorted(probes):
        o = any(s <= x <= e for s, e in out)
        u = in_union(x, pairs)
        if o and not u:
            return "x=%d in output but not in the union of the inputs" % x, None
        if u and not o:
            holders = [(a, b) for a, b in real if a <= x <= b]
            legit = any(s - 1000 <= x < s and c > s and all(b <= s for _, b in holders) for s, c in real)
            if not legit:
                zl = [z for z, z2 in pairs if z == z2 and z - 1000 <= x <= z and any(a < z <= b for a, b in holders)]
                return ("x=%d in the union of the inputs (and not in a microsecond removed by the touch separation) but not in output" % x,
                        dict(op="constructor", zero_length_inside=bool(zl)))
    return None, None


def build(form, unit, pairs_ns, rng):
    """construct through one of the accepted input forms; pairs in ns"""
    f = {"s": 1e9, "ms": 1e6, "us": 1e3}[unit]
    st = [p[0] / f for p in pairs_ns]
    en = [p[1] / f for p in pairs_ns]
    if form == "arrays":
        return nap.IntervalSet(start=np.array(st), end=np.array(en), time_units=unit)
    if form == "lists":
        return nap.IntervalSet(start=list(st), end=list(en), time_units=unit)
    if form == "pairs":
        return nap.IntervalSet(np.array(list(zip(st, en))).reshape(-1, 2), time_units=unit)
    if form == "df":
        return nap.IntervalSet(pd.DataFrame({"start": st, "end": en}, dtype=float), time_units=unit)
    if form == "scalar":
        return nap.IntervalSet(start=st[0], end=en[0], time_units=unit)
    if form in ("uint", "int32", "float32"):
        # integer / narrow dtypes, where the values are representable (non-negative whole numbers of the unit for unsigned)
        dt = {"uint": rng.choice([np.uint8, np.uint16, np.uint64]), "int32": np.int32, "float32": np.float32}[form]
        ok = all(float(v).is_integer() and abs(v) < 120 for v in st + en) and (form != "uint" or all(v >= 0 for v in st + en))
        if not ok:
            return nap.IntervalSet(start=np.array(st), end=np.array(en), time_units=unit)
        if rng.random() < 0.5:
            return nap.IntervalSet(start=np.array(st).astype(dt), end=np.array(en).astype(dt), time_units=unit)
        return nap.IntervalSet(np.array(list(zip(st, en))).reshape(-1, 2).astype(dt), time_units=unit)
    if form == "iset":
        return nap.IntervalSet(nap.IntervalSet(start=np.array(st), end=np.array(en), time_units=unit))
    raise ValueError(form)


def ctor_cases(ctx, cases):
    lines = [("mkiset %s %s" % (enc([p[0] for p in pairs]), enc([p[1] for p in pairs]))) for pairs, _, _ in cases]
    out = ctx.lean.run(lines) if ctx.lean else None
    for n, (pairs, form, unit) in enumerate(cases):
        inp = dict(level="ctor", pairs_ns=pairs, form=form, unit=unit)
        ctx.case(("c", tuple(sorted(pairs))), inp if n % 3001 == 7 else None)
        flag = (n % 4 == 3)       # the flags of nap_config silence warnings, nothing else: every fourth case runs with them on
        cfg = nap.nap_config
        old_flags = (cfg.suppress_time_index_sorting_warnings, cfg.suppress_conversion_warnings)
        try:
            if flag:
                cfg.suppress_time_index_sorting_warnings = True; cfg.suppress_conversion_warnings = True
                inp = dict(inp, suppress_flags=True)
            ep = build(form, unit, pairs, ctx.rng)
        except Exception as e:
            ctx.fail("oracle", "constructor raised %r" % (e,), inp)
            continue
        finally:
            cfg.suppress_time_index_sorting_warnings, cfg.suppress_conversion_warnings = old_flags
        st, en = iset_ns(ep)
        got = list(zip(st, en))
        ctx.count("out_len=%d" % min(len(got), 4))
        if not is_canonical_ns(st, en):
            ctx.fail("oracle", "IntervalSet not canonical", inp, impl=got)
        if all(s <= e for s, e in pairs):
            msg, fc = coverage_ok(pairs, got)
            if msg:
                ctx.fail("oracle", "coverage: " + msg, inp, impl=got, finding_ctx=fc)
        if out is not None and form != "iset":
            m = [] if out[n] == "-" else [tuple(int(v) for v in p.split(":")) for p in out[n].split(",")]
            if m != got:
                ctx.fail("corr", "IntervalSet(...) != model ISet.mk", inp, impl=got, model=m)


def rescaled_cases(ctx, n):
    """IntervalSet(<IntervalSet>, time_units=u): the numbers of an existing set re-read in another unit (the constructor rescales and
    rounds them to 1 ns, which can make neighbours touch or intervals vanish) - the result is the constructor applied to the
    rescaled, rounded endpoints, hence canonical"""
    lines, meta = [], []
    for k in range(n):
        q = ctx.rng.choice([2.5e-7, 5e-7, 1e-6, 1e-3])
        pts = sorted(ctx.rng.sample(range(0, 60), 2 * ctx.rng.randint(1, 5)))
        st = [v * q for v in pts[0::2]]; en = [v * q for v in pts[1::2]]
        inner = nap.IntervalSet(start=np.array(st), end=np.array(en))
        unit = ctx.rng.choice(["ms", "us", "s"])
        f = {"s": 1.0, "ms": 1e3, "us": 1e6}[unit]
        inp = dict(level="rescaled", inner_start=[float(v) for v in inner.start], inner_end=[float(v) for v in inner.end], unit=unit)
        ctx.case(("rs", tuple(pts), q, unit))
        try:
            outer = nap.IntervalSet(inner, time_units=unit)
        except Exception as e:
            ctx.fail("oracle", "IntervalSet(IntervalSet, time_units) raised %r" % (e,), inp); continue
        got = list(zip(*iset_ns(outer)))
        if not is_canonical_ns(*iset_ns(outer)):
            ctx.fail("oracle", "IntervalSet(IntervalSet, time_units=%s) not canonical" % unit, inp, impl=got)
        s_ns = [int(v) for v in np.rint(np.around(np.asarray(inner.start) / f, 9) * 1e9)]
        e_ns = [int(v) for v in np.rint(np.around(np.asarray(inner.end) / f, 9) * 1e9)]
        lines.append("mkiset %s %s" % (enc(s_ns), enc(e_ns))); meta.append((inp, got))
    out = ctx.lean.run(lines) if ctx.lean else None
    if out is not None:
        for (inp, got), o in zip(meta, out):
            m = [] if o == "-" else [tuple(int(v) for v in p.split(":")) for p in o.split(",")]
            if m != [tuple(g) for g in got]:
                ctx.fail("corr", "IntervalSet(IntervalSet, time_units) != model constructor on the rescaled, rounded endpoints", inp, impl=got, model=m)


def op_cases(ctx, n):
    sets = gen.canonical_sets(7, 3)
    lines, meta = [], []
    for k in range(n):
        a = ctx.rng.choice(sets); b = ctx.rng.choice(sets)
        if k % 2:
            off = -ctx.rng.choice([3, 9])
            a = ([v + off for v in a[0]], [v + off for v in a[1]]); b = ([v + off for v in b[0]], [v + off for v in b[1]])
        sc = ctx.rng.choice([1000, 2000, 10**6, 10**9])
        A = iset(a[0], a[1], sc); B = iset(b[0], b[1], sc)
        inp = dict(level="op", a=a, b=b, scale_ns=sc)
        ctx.case(("o", tuple(a[0]), tuple(a[1]), tuple(b[0]), tuple(b[1]), sc))
        an, bn = iset_ns(A), iset_ns(B)
        results = {}
        results["union"] = A.union(B); results["intersect"] = A.intersect(B); results["set_diff"] = A.set_diff(B)
        if len(A):
            results["split"] = A.split(ctx.rng.choice([1, 2, 3]) * sc / 1e9)
            results["merge_close"] = A.merge_close_intervals(ctx.rng.choice([0, 1, 2]) * sc / 1e9)
            results["drop_short"] = A.drop_short_intervals(ctx.rng.choice([1, 2]) * sc / 1e9)
            results["drop_long"] = A.drop_long_intervals(ctx.rng.choice([2, 3]) * sc / 1e9)
            results["time_span"] = A.time_span()
            results["index"] = A[ctx.rng.randrange(len(A))]
            results["slice"] = A[0:ctx.rng.randrange(len(A) + 1)]
            results["mask"] = A[np.array([ctx.rng.random() < 0.5 for _ in range(len(A))])]
            ts = nap.Ts(farr(sorted(set(a[0] + a[1] + b[0])), sc))
            results["find_support"] = ts.find_support(1.5 * sc / 1e9)
            results["restrict.support"] = ts.restrict(A).time_support
        # ---- the same methods on the Lean model (PynModel/Core/ISetOps.lean), half-step thresholds: no float ties
        pa = ",".join("%d:%d" % (s, e) for s, e in zip(*an)) or "-"
        h = sc // 2
        def _model(line, opname, r, extra):
            lines.append(line); meta.append((dict(inp, op=opname, **extra), opname, "err" if r is None else list(zip(*iset_ns(r)))))
        if len(A):
            thr = (2 * ctx.rng.randrange(0, 4) + 1) * h
            _model("idrops %s %d" % (pa, thr), "drop_short_intervals", A.drop_short_intervals(thr / 1e9), dict(thr_ns=thr))
            thr = (2 * ctx.rng.randrange(0, 4) + 1) * h
            _model("idropl %s %d" % (pa, thr), "drop_long_intervals", A.drop_long_intervals(thr / 1e9), dict(thr_ns=thr))
            thr = (2 * ctx.rng.randrange(-1, 4) + 1) * h
            _model("imclose %s %d" % (pa, thr), "merge_close_intervals", A.merge_close_intervals(thr / 1e9), dict(thr_ns=thr))
            _model("itspan %s" % pa, "time_span", A.time_span(), {})
            ix = [ctx.rng.randrange(len(A)) for _ in range(ctx.rng.randint(1, 4))]
            _model("iget %s %s" % (pa, enc(ix)), "index[list]", A[ix], dict(ix=ix))
            ix = [i for i in range(len(A)) if ctx.rng.random() < 0.5]
            if ix:
                mask = np.zeros(len(A), dtype=bool); mask[ix] = True
                _model("iget %s %s" % (pa, enc(ix)), "index[mask]", A[mask], dict(ix=ix))
            lo = ctx.rng.randrange(len(A)); hi = ctx.rng.randrange(lo, len(A) + 1)
            if hi > lo:
                _model("iget %s %s" % (pa, enc(list(range(lo, hi)))), "index[slice]", A[lo:hi], dict(lo=lo, hi=hi))
            k = ctx.rng.randrange(len(A))
            _model("iget %s %d" % (pa, k), "index[int]", A[k], dict(ix=[k]))
            tsn = sorted(set(v * sc for v in a[0] + a[1] + b[0]))
            gap = (2 * ctx.rng.randrange(0, 5) + 1) * h
            _model("ifsup %s %d" % (enc(tsn), gap), "find_support", nap.Ts(np.array(tsn) / 1e9).find_support(gap / 1e9), dict(ts=tsn, gap_ns=gap))
        else:
            try:
                r = A.time_span()
            except IndexError:
                r = None
            _model("itspan -", "time_span(empty)", r, {})
            _model("imclose - %d" % h, "merge_close_intervals(empty)", A.merge_close_intervals(h / 1e9), {})
        for name, r in results.items():
            st, en = iset_ns(r)
            if not is_canonical_ns(st, en):
                ctx.fail("oracle", "result of %s not canonical" % name, inp, impl=list(zip(st, en)))
        for opname, drv in (("union", "iunion"), ("intersect", "iintersect"), ("set_diff", "idiff")):
            lines.append("%s %s %s %s %s" % (drv, enc(an[0]), enc(an[1]), enc(bn[0]), enc(bn[1])))
            meta.append((inp, opname, list(zip(*iset_ns(results[opname])))))
    out = ctx.lean.run(lines) if ctx.lean else None
    if out is not None:
        for (inp, opname, got), o in zip(meta, out):
            m = "err" if o == "err" else [] if o == "-" else [tuple(int(v) for v in p.split(":")) for p in o.split(",")]
            if m != ("err" if got == "err" else [tuple(g) for g in got]):
                ctx.fail("corr", "%s != model" % opname, inp, impl=got, model=m)
            ctx.count("op=" + opname)


def run(ctx):
    G = 4
    allpairs = [(s, e) for s in range(G + 1) for e in range(G + 1)]
    cases = []
    forms = ["arrays", "lists", "pairs", "df", "iset"]
    units = ["s", "ms", "us"]
    maxn = 3 if ctx.quick else 4
    k = 0
    for n in range(0, maxn + 1):
        for ms in itertools.combinations_with_replacement(allpairs, n):
            k += 1
            if n == 4 and k % 3:      # thorough: a third of the 4-pair multisets
                continue
            sc = SCALES[k % len(SCALES)]
            off = -2 if k % 2 else 0      # every second multiset straddles / lies below time 0
            pairs = [((s + off) * sc, (e + off) * sc) for s, e in ms]
            ctx.rng.shuffle(pairs)
            form = forms[k % len(forms)] if n != 1 else (forms + ["scalar"])[k % 6]
            unit = units[(k // 7) % 3]
            cases.append((pairs, form, unit))
    for _ in range(1500 if ctx.quick else 20000):
        n = ctx.rng.randint(1, 12)
        sc = ctx.rng.choice(SCALES)
        pairs = []
        for _ in range(n):
            s = ctx.rng.randrange(-10, 30); e = s + ctx.rng.choice([0, 0, 1, 1, 2, 3, 5, -1, -2])
            pairs.append((s * sc, e * sc))
        cases.append((pairs, ctx.rng.choice(forms), ctx.rng.choice(units)))
    # integer and narrow dtypes: whole numbers of the unit (scale = the unit itself), half of them non-negative
    for _ in range(600 if ctx.quick else 6000):
        unit = ctx.rng.choice(units)
        sc = {"s": 10**9, "ms": 10**6, "us": 10**3}[unit]
        lo = ctx.rng.choice([0, 0, -10])
        pairs = []
        for _ in range(ctx.rng.randint(1, 6)):
            s = ctx.rng.randrange(lo, 30); e = s + ctx.rng.choice([0, 1, 1, 2, 3, 5, -1])
            if lo == 0:
                e = max(e, 0)
            pairs.append((s * sc, e * sc))
        cases.append((pairs, ctx.rng.choice(["uint", "uint", "int32", "float32"]), unit))
    ctor_cases(ctx, cases)
    rescaled_cases(ctx, 300 if ctx.quick else 4000)
    op_cases(ctx, 400 if ctx.quick else 6000)


def replay(ctx, rec):
    n0 = len(ctx.failures)
    i = rec["input"]
    if i.get("level") == "ctor":
        ctor_cases(ctx, [([tuple(p) for p in i["pairs_ns"]], i["form"], i["unit"])])
    else:
        return None      # not a stand-alone case: main re-executes the recorded run
    for f in ctx.failures[n0:]:
        print(f["kind"], f["what"], "impl=", f["impl"], "model=", f["model"])
    return len(ctx.failures) == n0

"""C11 — save followed by load_file returns an equal object."""
import importlib.util, os, shutil
import numpy as np
import pandas as pd
from ..common import VERIF, WORK, enc, ns, ns_arr
from .. import gen
from ..impl import nap, farr, iset, iset_ns
from .c04 import encp, parse_state

RULE = ("translator: npz key tables (written / read / excluded / forwarded / constructor parameters / detection table) regenerated from "
        "the current source and re-checked by `decide`; dynamic validation of the translator: keys actually present in files written by "
        "the real save() == generated table, per class and variant; round trip: 6 classes x content variants (empty, one sample, "
        "multi-interval support, samples on interval ends, int / float / bool data, integer and string (object-dtype) column labels, "
        "unsorted non-contiguous group keys, members without samples, members carrying data, numeric and string metadata) through "
        "nap.load_file and nap.Folder: same class, timestamps, values and dtype, support, columns, keys, metadata; the loaded series == Lean "
        "model of the reader (constructor applied to the stored arrays)")
PROVED = ("keys_read_are_written, keys_written_are_consumed, forwarded_keys_are_parameters, type_detection_table, group_keys_written, "
          "group_data_key_agrees (decide over the regenerated tables); mk_canonical_id (constructor = identity on canonical sets), "
          "roundtrip_series, roundtrip_group (any time-sorting permutation; members without samples kept)")
NOT_PROVED = ("np.savez / np.load byte-level I/O and dtype preservation (exercised by the round-trip oracle), pandas to_dict / from_dict of "
              "metadata (oracle), column labels (oracle)")
ASSUMPTIONS = ["objects are well formed (C04) and groups have strictly increasing keys (C12)"]
SC = 10**6


def _extractor():
    spec = importlib.util.spec_from_file_location("extract_npz_keys", os.path.join(VERIF, "tools", "extract_npz_keys.py"))
    m = importlib.util.module_from_spec(spec); spec.loader.exec_module(m)
    return m


def pregen():
    d, changed = _extractor().main()
    if d["unrecognised"]:
        raise RuntimeError("extractor: unrecognised shapes %s" % d["unrecognised"])


def make(ctx, cls, k):
    rng = ctx.rng
    n = [0, 1, rng.randint(2, 8)][k % 3] if k % 7 else rng.randint(2, 8)
    ts = sorted(rng.sample(range(0, 60), n))
    if k % 4 == 2 and n >= 2:
        ts[1] = ts[0]                      # two samples at one instant (distinct data rows)
        if n >= 4:
            ts[-1] = ts[-2]
    st, en = gen.rand_canonical(rng, 3, 64)
    if not st or k % 2 == 0:
        st, en = [min(ts + [0])], [max(ts + [1]) + 1]
    if ts and k % 5 == 0:
        st = sorted(set(st + [ts[0]]))[:len(en)]   # sample exactly on an interval start when consistent
        if not all(s < e for s, e in zip(st, en)) or not all(en[i] < st[i + 1] for i in range(len(st) - 1)):
            st, en = [ts[0]], [ts[-1] + 1]
    ep = iset(st, en, SC)
    t = farr(ts, SC)
    dt = [np.float64, np.int64, np.float32, np.bool_][k % 4]
    if cls == "Ts":
        return nap.Ts(t, time_support=ep)
    if cls == "Tsd":
        return nap.Tsd(t, (np.arange(n) * 3 + 1).astype(dt), time_support=ep)
    if cls == "TsdFrame":
        nc = rng.randint(1, 4)
        cols = [["a", "b", "c", "d"][:nc], rng.sample(range(0, 50), nc), None,
                # string labels that LOOK like numbers / booleans / missing values must come back as the same strings
                ["3", "07", "12", "-1"][:nc], ["1.5", "nan", "True", "x y"][:nc]][k % 5]
        md = {"m_num": np.arange(nc) * 1.5, "m_str": np.array(["s%d" % i for i in range(nc)], dtype=object)} if k % 2 else None
        return nap.TsdFrame(t, (np.arange(n * nc).reshape(n, nc) + 1).astype(dt), columns=cols, time_support=ep, metadata=md)
    if cls == "TsdTensor":
        return nap.TsdTensor(t, (np.arange(n * 6).reshape(n, 2, 3) + 1).astype(dt), time_support=ep)
    if cls == "IntervalSet":
        md = {"lab": np.array(["e%d" % i for i in range(len(st))], dtype=object), "val": np.arange(len(st)) * 2} if k % 2 else None
        return iset(st, en, SC, metadata=md)
    if cls == "TsGroup":
        nm = rng.randint(1, 4)
        keys = rng.sample(range(0, 30), nm)
        with_data = (k % 2 == 1)
        mem = {}
        for j, kk in enumerate(keys):
            m = rng.randint(0, 5) if j else rng.randint(1, 5)
            if k % 4 == 0 and j == nm - 1:
                m = 0       # a member with no samples
            if k % 6 == 5:
                m = 1       # as many samples in total as members: stored arrays have the length of the metadata
            if with_data and k % 8 == 7:
                m = 0       # a group of Tsd members none of which holds a sample: the members stay Tsd
            tl = sorted(rng.sample(range(0, 60), m))
            if with_data and k % 4 == 1 and j == 0:
                # many samples sharing their timestamps (each of 20 instants three times): the writer pools all members by
                # time - the values of one member at one instant must come back in their own order
                tl = sorted(rng.sample(range(0, 60), 20) * 3); m = len(tl)
            tt = farr(tl, SC)
            mem[kk] = nap.Tsd(tt, np.arange(m) + 10.0 * j + 1) if with_data else nap.Ts(tt)
        md = pd.DataFrame({"g_num": [float(x) * 2 for x in sorted(keys)], "g_str": ["k%d" % x for x in sorted(keys)]}, index=sorted(keys)) if k % 3 else None
        return nap.TsGroup(mem, time_support=iset([0], [64], SC), metadata=md)


def describe(o):
    """canonical, comparable description of an object (never raw floats for times)"""
    if isinstance(o, nap.IntervalSet):
        return dict(cls="IntervalSet", iv=iset_ns(o), meta=meta_of(o))
    if isinstance(o, nap.TsGroup):
        return dict(cls="TsGroup", keys=[int(x) for x in o.keys()], sup=iset_ns(o.time_support),
                    members={int(x): describe(o[x]) for x in o.keys()}, meta=meta_of(o, drop=["rate"]))
    d = dict(cls=type(o).__name__, t=ns_arr(o.index.values), sup=iset_ns(o.time_support))
    if hasattr(o, "values"):
        v = np.asarray(o.values)
        d.update(values=v.tolist(), dtype=str(v.dtype), shape=list(v.shape))
    if isinstance(o, nap.TsdFrame):
        d.update(columns=[c if isinstance(c, str) else int(c) for c in o.columns], meta=meta_of(o))
    return d


def meta_of(o, drop=()):
    m = o.metadata
    return {str(c): [v if isinstance(v, str) else float(v) for v in m[c].values] for c in m.columns if c not in drop}


def run(ctx):
    ex = _extractor().extract()
    writes = {c: dict(ex["writes"][c]) for c in ex["classes"]}
    tmp = os.path.join(WORK, "C11-%d" % os.getpid())
    shutil.rmtree(tmp, ignore_errors=True); os.makedirs(tmp)
    lines, metas = [], []
    try:
        n = 25 if ctx.quick else 300
        fol = nap.Folder(tmp)
        for cls in ex["classes"]:
            for k in range(n):
                try:
                    x = make(ctx, cls, k)
                except Exception as e:
                    ctx.count("make_raised:%s:%s" % (cls, type(e).__name__)); continue
                want = describe(x)
                inp = dict(level="roundtrip", cls=cls, variant=k, obj=want)
                ctx.case((cls, k, repr(want)[:200]), inp if k == 3 else None)
                ctx.count("cls:" + cls)
                p = os.path.join(tmp, "x_%s_%d.npz" % (cls, k))
                try:
                    x.save(p)
                except Exception as e:
                    ctx.fail("oracle", "save raised %r" % (e,), inp); continue
                # translator validation: keys in the file vs generated table
                with np.load(p, allow_pickle=True) as f:
                    keys = set(f.keys())
                    raw = {kk: f[kk] for kk in keys if kk in ("t", "start", "end")}
                must = {kk for kk, opt in writes[cls].items() if not opt}
                may = set(writes[cls])
                if not (must <= keys <= may):
                    ctx.fail("corr", "keys written by %s.save() != generated table" % cls, inp, impl=sorted(keys),
                             model=dict(unconditional=sorted(must), all=sorted(may)))
                for how in ("load_file", "Folder"):
                    try:
                        if how == "load_file":
                            y = nap.load_file(p)
                        else:
                            fol.save("f_%s_%d" % (cls, k), x)
                            y = nap.Folder(tmp)["f_%s_%d" % (cls, k)]
                    except Exception as e:
                        ctx.fail("oracle", "%s raised %r" % (how, e), inp); continue
                    got = describe(y)
                    if got != want:
                        diff = [kk for kk in want if got.get(kk) != want[kk]]
                        ctx.fail("oracle", "%s(save(x)) != x : differs in %s" % (how, diff), inp, impl={kk: got.get(kk) for kk in diff},
                                 expected={kk: want[kk] for kk in diff})
                # the SAME Folder instance saves another object under a name it already holds, then loads: the last saved object
                if k % 5 == 2:
                    try:
                        x2 = make(ctx, cls, k + 1)
                        d2 = describe(x2)
                        if d2.get("t") == [] and d2.get("sup") and d2["sup"][0]:
                            raise StopIteration      # an object of the open finding's class (no sample, non-empty support): covered above
                        nm = "ow_%s" % cls
                        fol.save(nm, x, "first"); fol.save(nm, x2, "second")
                        fol.load()
                        got2 = describe(fol[nm])
                        if got2 != describe(x2):
                            ctx.fail("oracle", "Folder: load() after saving twice under one name does not return the last saved object",
                                     dict(inp, second=describe(x2)), impl=got2)
                    except StopIteration:
                        pass
                    except Exception as e:
                        ctx.fail("oracle", "Folder: save twice under one name, then load() raised %r" % (e,), inp)
                if cls in ("Ts", "Tsd", "TsdFrame", "TsdTensor"):
                    y = nap.load_file(p)
                    lines.append("snew %s %s %s" % (enc(ns_arr(raw["t"])), enc(range(len(raw["t"]))),
                                                    encp(list(zip(ns_arr(raw["start"]), ns_arr(raw["end"]))))))
                    metas.append((inp, (ns_arr(y.index.values), list(zip(*iset_ns(y.time_support))))))
        out = ctx.lean.run(lines) if ctx.lean else None
        if out is not None:
            for (inp, (t, sup)), o in zip(metas, out):
                mt, _, msup, _, _ = parse_state(o)
                if (t, sup) != (mt, msup) and not (t == [] and mt == []):
                    ctx.fail("corr", "loaded object != model of the reader (constructor on the stored arrays)", inp, impl=(t, sup), model=(mt, msup))
    finally:
        shutil.rmtree(tmp, ignore_errors=True)


def replay(ctx, rec):
    print("re-executing the recorded run of `./check C11 quick` with VERIF_SEED=%s; failing input: %s" % (rec.get("seed"), rec.get("input")))
    return None

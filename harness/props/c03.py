"""C03 — restrict keeps exactly the samples inside the closed intervals, rows intact."""
import numpy as np
from ..common import enc, dec, dec_opt, ns, ns_arr
from .. import gen
from ..impl import nap, J, farr, iset, iset_ns

RULE = ("kernel level: every non-decreasing multiset of <=4 (quick) timestamps x every canonical interval set "
        "with <=3 intervals on the grid {0..6} (all order types incl. ties with interval ends, empty series, empty set, "
        "epochs before/after/between), three kernels (jitrestrict, jitrestrict_with_count, jitin_interval), compiled; "
        "API level: seeded sample of the same space through Ts/Tsd/TsdFrame/TsdTensor/TsGroup with tagged rows, random "
        "lattice scale; distinct = distinct (timestamps, set) order types; non-trivial = all (each differs in at least one comparison)")
PROVED = ("restrict_selects (i in result <-> sample i in some closed interval; all sizes), restrict_ordered, restrict_in_bounds; "
          "restrict_eq_filter / restrictT_eq (the result IS the original sequence filtered by 'lies in a closed interval': same order, same "
          "multiplicity), restrict_rows_paired, restrict_idem (restricting again changes nothing), restrict_then + restrict_comp "
          "(restrict(a).restrict(b) == restrict(a.intersect(b)) for samples farther than 1 us from every endpoint - via C02 "
          "ISet_intersect_pointwise), new_support_eq_restrict (constructor with time_support == constructor then restrict); "
          "restrictCount_selects_like_restrict (jitrestrict_with_count returns the same index vector, any input); "
          "C15 restrictCount_counts")
NOT_PROVED = ("labels / metadata / time support of the result object, TsGroup member-wise application: decided by the oracle + "
              "correspondence run only")
ASSUMPTIONS = ["timestamps of a series are non-decreasing and an IntervalSet is canonical (C04/C01 establish both)"]


def brute(ts, st, en):
    return [i for i, t in enumerate(ts) if any(s <= t <= e for s, e in zip(st, en))]


def kernel_level(ctx, cases):
    lines = []
    impl = []
    for (ts, st, en) in cases:
        a, s, e = farr(ts, 10**9), farr(st, 10**9), farr(en, 10**9)
        ix = J.jitrestrict(a, s, e)
        ix2, cnt = J.jitrestrict_with_count(a, s, e)
        ii = J.jitin_interval(a, s, e)
        impl.append((list(map(int, ix)), list(map(int, ix2)), list(map(int, cnt)),
                     [None if np.isnan(v) else int(v) for v in ii]))
        t_, s_, e_ = enc(ts), enc(st), enc(en)
        lines += ["restrict %s %s %s" % (t_, s_, e_), "restrictc %s %s %s" % (t_, s_, e_), "inint %s %s %s" % (t_, s_, e_)]
    out = ctx.lean.run(lines) if ctx.lean else None
    for n, (ts, st, en) in enumerate(cases):
        ix, ix2, cnt, ii = impl[n]
        inp = dict(level="kernel", ts=ts, st=st, en=en)
        ctx.case(("k", tuple(ts), tuple(st), tuple(en)), inp if n % 4001 == 0 else None)
        exp = brute(ts, st, en)
        # oracle (property itself)
        if ix != exp:
            ctx.fail("oracle", "jitrestrict selects wrong samples", inp, impl=ix, expected=exp)
        if ix2 != exp:
            ctx.fail("oracle", "jitrestrict_with_count selects wrong samples", inp, impl=ix2, expected=exp)
        expcnt = [sum(1 for t in ts if s <= t <= e) for s, e in zip(st, en)]
        if cnt != expcnt:
            ctx.fail("oracle", "per-interval count wrong", inp, impl=cnt, expected=expcnt)
        expii = [next((k for k, (s, e) in enumerate(zip(st, en)) if s <= t <= e), None) for t in ts]
        if ii != expii:
            ctx.fail("oracle", "in_interval wrong", inp, impl=ii, expected=expii)
        if out is not None:
            m1 = dec(out[3 * n]); a, b = out[3 * n + 1].split("|"); m3 = dec_opt(out[3 * n + 2])
            if m1 != ix:
                ctx.fail("corr", "jitrestrict != model", inp, impl=ix, model=m1)
            if (dec(a), dec(b)) != (ix2, cnt):
                ctx.fail("corr", "jitrestrict_with_count != model", inp, impl=(ix2, cnt), model=(dec(a), dec(b)))
            if m3 != ii:
                ctx.fail("corr", "jitin_interval != model", inp, impl=ii, model=m3)
        ctx.count("kept=%d" % min(len(exp), 3))


def mk_obj(cls, ts, scale, support=None, units=None):
    """series of class cls with rows tagged by their original position"""
    t = farr(ts, scale)
    n = len(ts)
    kw = {} if support is None else dict(time_support=support)
    if units is not None:
        t = t * {"ms": 1e3, "us": 1e6}[units]
        kw["time_units"] = units
    if cls == "Ts":
        return nap.Ts(t=t, **kw)
    if cls == "Tsd":
        return nap.Tsd(t=t, d=np.arange(n) * 10.0 + 1, **kw)
    if cls == "TsdFrame":
        d = np.stack([np.arange(n) * 10.0 + 1, np.arange(n) * 10.0 + 2], axis=1).reshape(n, 2)
        return nap.TsdFrame(t=t, d=d, columns=["a", "b"], metadata={"m": ["x", "y"]}, **kw)
    if cls == "TsdTensor":
        d = (np.arange(n)[:, None, None] * 10.0 + np.arange(4).reshape(2, 2)[None])
        return nap.TsdTensor(t=t, d=d, **kw)
    raise ValueError(cls)


def rows_of(x):
    if not hasattr(x, "values"):
        return None
    v = np.asarray(x.values)
    if len(v) == 0:
        return []
    if v.ndim == 1:
        return [int(round((a - 1) / 10)) for a in v]
    return [int(round((a - 1) / 10)) if v.ndim == 2 else int(round(a / 10)) for a in v.reshape(len(v), -1)[:, 0]]


def api_case(ctx, cls, ts, st, en, scale, st2=None, en2=None):
    inp = dict(level="api", cls=cls, ts=ts, st=st, en=en, scale_ns=scale, st2=st2, en2=en2)
    ctx.case(("a", cls, tuple(ts), tuple(st), tuple(en)), inp if ctx.evaluations % 997 == 0 else None)
    ep = iset(st, en, scale)
    sst, sen = iset_ns(ep)
    tns = [t * scale for t in ts]
    exp = brute(tns, sst, sen)
    if cls == "TsGroup":
        # member-wise; explicit group support so that members are not pre-restricted
        full = iset([min(ts + st) - 1], [max(ts + en) + 1], scale) if (ts or st) else iset([-1], [1], scale)
        g = nap.TsGroup({3: nap.Ts(farr(ts, scale)), 7: nap.Ts(farr(ts[::2], scale))}, time_support=full,
                        metadata={"lab": ["p", "q"]})
        r = g.restrict(ep)
        for key, src in ((3, ts), (7, ts[::2])):
            e = [src[i] * scale for i in brute([t * scale for t in src], sst, sen)]
            if ns_arr(r[key].t) != e:
                ctx.fail("oracle", "TsGroup.restrict member %d" % key, inp, impl=ns_arr(r[key].t), expected=e)
        if list(r.keys()) != [3, 7] or list(r.get_info("lab")) != ["p", "q"]:
            ctx.fail("oracle", "TsGroup.restrict keys/metadata changed", inp, impl=[list(r.keys()), list(r.get_info("lab"))])
        if iset_ns(r.time_support) != (sst, sen):
            ctx.fail("oracle", "TsGroup.restrict support != ep", inp, impl=iset_ns(r.time_support), expected=(sst, sen))
        # the same group on its DEFAULT support [first, last] (ep often touches it in one instant only, with a spike on it), and on a
        # support with a gap between two consecutive timestamps p < q restricted to exactly [p, q]
        d = sorted(set(ts))
        if len(d) >= 2:
            variants = [("default support", None, ep, (sst, sen))]
            j = (len(ts) * 7 + len(st)) % (len(d) - 1)
            pq = iset([d[j]], [d[j + 1]], scale)
            variants.append(("support with the gap (p, q), ep = [p, q]", iset([d[0] - 1, d[j + 1]], [d[j], d[-1] + 1], scale), pq, iset_ns(pq)))
            for vname, sup_, ep_, (a_, b_) in variants:
                try:
                    g2 = nap.TsGroup({3: nap.Ts(farr(ts, scale)), 7: nap.Ts(farr(ts[::2], scale))}, **({} if sup_ is None else dict(time_support=sup_)))
                except RuntimeError:
                    continue      # union of supports empty (member 7 one-instant and so on)
                held = {key: ns_arr(g2[key].t) for key in (3, 7)}
                r2 = g2.restrict(ep_)
                for key in (3, 7):
                    e = [held[key][i] for i in brute(held[key], a_, b_)]
                    if ns_arr(r2[key].t) != e:
                        ctx.fail("oracle", "TsGroup.restrict (%s) member %d" % (vname, key), dict(inp, variant=vname), impl=ns_arr(r2[key].t), expected=e)
        return
    x = mk_obj(cls, ts, scale)
    # x itself was given support [t0, tn]; restrict by ep
    r = x.restrict(ep)
    got_t = ns_arr(r.t)
    if got_t != [tns[i] for i in exp]:
        ctx.fail("oracle", "%s.restrict timestamps" % cls, inp, impl=got_t, expected=[tns[i] for i in exp])
    rr = rows_of(r)
    if rr is not None and rr != exp:
        ctx.fail("oracle", "%s.restrict rows not paired with their timestamps" % cls, inp, impl=rr, expected=exp)
    if cls == "TsdFrame":
        if list(r.columns) != ["a", "b"] or list(r.get_info("m")) != ["x", "y"]:
            ctx.fail("oracle", "TsdFrame.restrict labels/metadata changed", inp, impl=[list(r.columns), list(r.get_info("m"))])
    # support
    want = (sst, sen) if exp else ([], [])
    if iset_ns(r.time_support) != want:
        ctx.fail("oracle", "%s.restrict support" % cls, inp, impl=iset_ns(r.time_support), expected=want)
    # idempotence
    r2 = r.restrict(ep)
    if ns_arr(r2.t) != got_t or (rr is not None and rows_of(r2) != rr):
        ctx.fail("oracle", "%s.restrict not idempotent" % cls, inp, impl=ns_arr(r2.t), expected=got_t)
    # constructor with time_support == construct then restrict
    c = mk_obj(cls, ts, scale, support=ep)
    if ns_arr(c.t) != got_t or (rr is not None and rows_of(c) != rr):
        ctx.fail("oracle", "%s(time_support=ep) != %s().restrict(ep)" % (cls, cls), inp, impl=ns_arr(c.t), expected=got_t)
    # a TsdFrame built from 1-D data (one column, array or list): rows and timestamps are restricted TOGETHER
    if cls == "TsdFrame":
        for form in ("array", "list"):
            d1 = np.arange(len(ts)) * 10.0 + 1
            try:
                c1 = nap.TsdFrame(t=farr(ts, scale), d=d1 if form == "array" else list(d1), time_support=ep)
            except Exception as e:
                ctx.fail("oracle", "TsdFrame(t, 1-D d, time_support=ep) raised %r" % (e,), dict(inp, d_form=form)); continue
            v1 = np.asarray(c1.values)
            if ns_arr(c1.t) != got_t or v1.shape != (len(got_t), 1) or rows_of(c1) != rr:
                ctx.fail("oracle", "TsdFrame(t, 1-D d, time_support=ep) != TsdFrame(t, d).restrict(ep)", dict(inp, d_form=form),
                         impl=dict(t=ns_arr(c1.t), shape=list(v1.shape), rows=rows_of(c1) if v1.shape[0] == len(got_t) else "row count %d" % v1.shape[0]), expected=dict(t=got_t, rows=rr))
    # ... also when the timestamps are given in another unit (the support is an IntervalSet: already in seconds)
    if scale >= 1000:
        for un in ("ms", "us"):
            cu = mk_obj(cls, ts, scale, support=ep, units=un)
            if ns_arr(cu.t) != got_t or (rr is not None and rows_of(cu) != rr):
                ctx.fail("oracle", "%s(time_units=%s, time_support=ep) != %s().restrict(ep)" % (cls, un, cls), inp, impl=ns_arr(cu.t), expected=got_t)
    # restrict(a).restrict(b) vs restrict(a.intersect(b)), samples not within 1us of an endpoint
    if st2 is not None:
        ep2 = iset(st2, en2, scale)
        lhs = ns_arr(x.restrict(ep).restrict(ep2).t)
        rhs = ns_arr(x.restrict(ep.intersect(ep2)).t)
        ends = set(sst + sen + sum(map(list, iset_ns(ep2)), []))
        far = lambda t: all(abs(t - e) > 1000 for e in ends)
        if [t for t in lhs if far(t)] != [t for t in rhs if far(t)]:
            ctx.fail("oracle", "restrict(a).restrict(b) != restrict(a.intersect(b))", inp, impl=lhs, expected=rhs)


def run(ctx):
    G = 6
    sets = gen.canonical_sets(G, 3)
    tss = gen.multisets(G, 4 if ctx.quick else 5)
    cases = [(ts, st, en) for ts in tss for (st, en) in sets]
    # translate every second case below zero (sign-dependent slips: zero-initialised buffers, abs(), ...)
    cases = [c if n % 2 else tuple([v - 4 for v in part] for part in c) for n, c in enumerate(cases)]
    if not ctx.quick:
        sets8 = gen.canonical_sets(8, 4)
        for _ in range(60000):
            cases.append((gen.rand_sorted(ctx.rng, 7, 9), *ctx.rng.choice(sets8)))
    for _ in range(2000 if ctx.quick else 20000):
        st, en = gen.rand_canonical(ctx.rng, 6, 40)
        cases.append((gen.rand_sorted(ctx.rng, 25, 42), st, en))
    kernel_level(ctx, cases)
    classes = ["Ts", "Tsd", "TsdFrame", "TsdTensor", "TsGroup"]
    napi = 1500 if ctx.quick else 15000
    for n in range(napi):
        ts = ctx.rng.choice(tss) if n % 3 else gen.rand_sorted(ctx.rng, 10, 9)
        st, en = ctx.rng.choice(sets)
        scale = ctx.rng.choice(gen.SCALES)[0]
        st2 = en2 = None
        if n % 2 == 0:
            st2, en2 = ctx.rng.choice(sets)
        if n % 4 < 2:
            ts = [v - 4 for v in ts]; st = [v - 4 for v in st]; en = [v - 4 for v in en]
            if st2 is not None:
                st2 = [v - 4 for v in st2]; en2 = [v - 4 for v in en2]
        api_case(ctx, classes[n % 5], list(ts), list(st), list(en), scale, None if st2 is None else list(st2), None if en2 is None else list(en2))
    # malformed stream: non-IntervalSet argument must raise TypeError
    try:
        nap.Ts([1.0]).restrict([0, 1]); ctx.fail("oracle", "restrict accepted a list", dict(level="api-malformed"))
    except TypeError:
        pass
    ctx.case(("malformed", 0))


def replay(ctx, rec):
    n0 = len(ctx.failures)
    i = rec["input"]
    if i.get("level") == "kernel":
        kernel_level(ctx, [(i["ts"], i["st"], i["en"])])
    elif i.get("level") == "api":
        api_case(ctx, i["cls"], i["ts"], i["st"], i["en"], i["scale_ns"], i.get("st2"), i.get("en2"))
    for f in ctx.failures[n0:]:
        print(f["kind"], f["what"], "impl=", f["impl"], "model=", f["model"], "expected=", f["expected"])
    return len(ctx.failures) == n0

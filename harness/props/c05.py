"""C05 — count and bin_average attribute each sample to exactly its own bin."""
import numpy as np
from ..common import enc, ns, ns_arr
from .. import gen
from ..impl import nap, farr, iset, iset_ns

RULE = ("API level: multisets of <=4 timestamps (duplicates, on bin edges, on interval ends) x canonical sets with <=2 "
        "intervals on the grid {0..5} x bin sizes {1,2,3,4,7}/2 grid units (intervals shorter than, equal to, not a multiple "
        "of the bin; centre exactly on the interval end) x units s/ms/us x dtypes, at lattice scales 2us/1ms/1s/2^-8 s; "
        "count with and without bin size, bin_average on Tsd/TsdFrame, TsGroup.count; each compared with the property's own "
        "formula (oracle) and with the Lean model of jitcount/_jitbin_array. distinct = distinct (timestamps, set, bin, scale)")
PROVED = ("countIn_spec, binLoop_centres (bin grid), countIn_counts + binLoop_counts (the k-th reported bin of an epoch counts exactly that epoch's "
          "samples with start+k*bin <= t < start+(k+1)*bin), countIn_sums + binLoop_sums (the same bin carries the SUM of exactly those samples' "
          "data, so bin_average = that sum / that count, NaN for an empty bin), nbBins_suffices (the preallocation never truncates); "
          "C15 jitbin_safe; C05Axis: binLoop_axis / countK_axis / jitbin_axis / jitbin_columns_align (the reported bin centres depend on the epochs and "
          "the bin only, never on the samples: TsGroup.count's preallocation from the FIRST member and its single time index are right for every column)")
NOT_PROVED = "the float division sum/count, dtype, unit conversion of the bin size (C09 algebra), that TsGroup.count's Python loop is the per-member map (correspondence: group index x column vs model per member)"
EXTRA_MODULES = ["C05Axis"]
ASSUMPTIONS = ["series restricted and sorted; ep canonical; bin size a positive multiple of 2 ns so that centres are on the ns lattice"]

SCALES = [2000, 10**6, 10**9, 7812500]
EXACT = {10**9, 7812500}    # scales on which the float arithmetic of the bin centres is exact (integers / dyadic)


def expected_bins(ts, st, en, b):
    """property's own formula, integers (ns). returns list of (2*centre, count, [indices])"""
    out = []
    for s, e in zip(st, en):
        l = s
        while 2 * l + b <= 2 * e:
            idx = [i for i, t in enumerate(ts) if s <= t <= e and l <= t < l + b]
            out.append((2 * l + b, len(idx), idx))
            l += b
    return out


def one(ctx, ts, st, en, bk, sc, unit, dtype, lines, meta):
    b = bk * sc // 2          # bin size in ns (bk half grid units)
    inp = dict(ts=ts, st=st, en=en, bin_ns=b, scale_ns=sc, unit=unit, dtype=str(dtype))
    # (a bin centre landing exactly on an interval end used to be decided by the last ulp of a float sum on non-dyadic scales and was
    # skipped here; since fix: the kernels round the centre to the nanosecond like every other bin edge, so these cases are checked)
    ctx.case((tuple(ts), tuple(st), tuple(en), bk, sc), inp if ctx.evaluations % 1499 == 3 else None)
    tns = [t * sc for t in ts]; sns = [s * sc for s in st]; ens = [e * sc for e in en]
    x = nap.Ts(farr(ts, sc)) if ts else nap.Ts(np.array([]))
    ep = iset(st, en, sc)
    f = {"s": 1e9, "ms": 1e6, "us": 1e3}[unit]
    r = x.count(b / f, ep, time_units=unit, dtype=dtype)
    exp = expected_bins(tns, sns, ens, b)
    got = list(zip([2 * ns(v) for v in r.t], [int(v) for v in r.values]))
    if got != [(c, n) for c, n, _ in exp]:
        ctx.fail("oracle", "count(bin) differs from the property's formula", inp, impl=got, expected=[(c, n) for c, n, _ in exp])
    if r.values.dtype != np.dtype(dtype if dtype is not None else np.int64):
        ctx.fail("oracle", "count dtype", inp, impl=str(r.values.dtype))
    if iset_ns(r.time_support) != (sns, ens) and len(got):
        ctx.fail("oracle", "count support != ep", inp, impl=iset_ns(r.time_support))
    lines.append("bin %s %s %s %s %d" % (enc(tns), enc([0] * len(tns)), enc(sns), enc(ens), b))
    meta.append(("count", inp, got))
    # no bin size: per-interval counts sum to len(restrict)
    r0 = x.count(ep=ep)
    c0 = [int(v) for v in r0.values]
    e0 = [sum(1 for t in tns if s <= t <= e) for s, e in zip(sns, ens)]
    if c0 != e0 or sum(c0) != len(x.restrict(ep)):
        ctx.fail("oracle", "count(ep=ep) per-interval counts", inp, impl=c0, expected=e0)
    # bin_average on a Tsd and a TsdFrame with integer-valued data
    if ts:
        d = np.array([(5 * i + 2) % 13 for i in range(len(ts))], dtype=float)
        tsd = nap.Tsd(farr(ts, sc), d)
        ra = tsd.bin_average(b / f, ep, time_units=unit)
        gota = list(zip([2 * ns(v) for v in ra.t], [None if np.isnan(v) else float(v) for v in ra.values]))
        expa = [(c, (sum(d[i] for i in idx) / n) if n else None) for c, n, idx in exp]
        if gota != expa:
            ctx.fail("oracle", "bin_average differs from the per-bin mean", inp, impl=gota, expected=expa)
        lines.append("bin %s %s %s %s %d" % (enc(tns), enc([int(v) for v in d]), enc(sns), enc(ens), b))
        meta.append(("binavg", inp, gota))
        fr = nap.TsdFrame(farr(ts, sc), np.stack([d, 2 * d + 1], axis=1), columns=["u", "v"])
        rf = fr.bin_average(b / f, ep, time_units=unit)
        for col, mul, add in ((0, 1, 0), (1, 2, 1)):
            g = [None if np.isnan(v) else float(v) for v in rf.values[:, col]]
            e_ = [None if v is None else mul * v + add for _, v in expa]
            same = len(g) == len(e_) and all((a is None and b_ is None) or (a is not None and b_ is not None and abs(a - b_) <= 1e-9 * max(1, abs(b_))) for a, b_ in zip(g, e_))
            if not same or list(rf.columns) != ["u", "v"]:
                ctx.fail("oracle", "TsdFrame.bin_average column %d" % col, inp, impl=g, expected=e_)


def group_case(ctx, sc, lines=None, meta=None):
    keys = sorted(ctx.rng.sample(range(20), 3)); ctx.rng.shuffle(keys)
    mem = {k: gen.rand_sorted(ctx.rng, 6, 10) for k in keys}
    if ctx.rng.random() < 0.35:      # an empty member, sometimes the FIRST one (the one whose time index is reported for all)
        mem[ctx.rng.choice([min(keys), ctx.rng.choice(keys)])] = []
    st, en = gen.rand_canonical(ctx.rng, 2, 10)
    bk = ctx.rng.choice([2, 4])
    inp = dict(group={str(k): v for k, v in mem.items()}, st=st, en=en, bk=bk, scale_ns=sc)
    ctx.case(("g", repr(inp)))
    full = iset([0], [10], sc)
    g = nap.TsGroup({k: (nap.Ts(farr(v, sc)) if v else nap.Ts(np.array([]))) for k, v in mem.items()}, time_support=full)
    ep = iset(st, en, sc)
    b = bk * sc // 2
    c = g.count(b / 1e9, ep)
    if lines is not None:
        # tie of the column assembly to the model: the GROUP's time index paired with column j must be the model's jitcount of member j
        # (C05Axis.jitbin_axis: the model's centres do not depend on the member, so one reported index serves all columns)
        for j, k in enumerate(sorted(keys)):
            tn = [t * sc for t in mem[k]]
            lines.append("bin %s %s %s %s %d" % (enc(tn), enc([0] * len(tn)), enc([v * sc for v in st]), enc([v * sc for v in en]), b))
            meta.append(("count", dict(inp, member=k, what="TsGroup.count time index x column"),
                         list(zip([2 * ns(v) for v in c.t], [int(v) for v in c.values[:, j]]))))
    if list(c.columns) != sorted(keys):
        ctx.fail("oracle", "TsGroup.count columns are not the sorted keys", inp, impl=list(c.columns))
    for j, k in enumerate(sorted(keys)):
        m = g[k].count(b / 1e9, ep)
        if list(c.values[:, j]) != list(m.values) or ns_arr(c.t) != ns_arr(m.t):
            ctx.fail("oracle", "TsGroup.count column %d != member count" % k, inp, impl=list(c.values[:, j]), expected=list(m.values))
    c0 = g.count(ep=ep)
    for j, k in enumerate(sorted(keys)):
        if list(c0.values[:, j]) != list(g[k].count(ep=ep).values):
            ctx.fail("oracle", "TsGroup.count(ep) column != member", inp)


def run(ctx):
    G = 5
    sets = gen.canonical_sets(G, 2)
    tss = gen.multisets(G, 4 if ctx.quick else 5)
    lines, meta = [], []
    n = 2500 if ctx.quick else 30000
    dtypes = [None, np.int64, np.int32, np.float64]
    for k in range(n):
        ts = ctx.rng.choice(tss); st, en = ctx.rng.choice(sets)
        if k % 2:       # every second case lies below / straddles time 0 (sign-dependent rounding of the bin edges)
            off = ctx.rng.choice([-3, -7])
            ts = [v + off for v in ts]; st = [v + off for v in st]; en = [v + off for v in en]
        one(ctx, list(ts), list(st), list(en), ctx.rng.choice([1, 2, 3, 4, 7]), SCALES[k % len(SCALES)],
            ["s", "ms", "us"][k % 3], dtypes[k % 4], lines, meta)
    # longer supports: 3-4 intervals, some much shorter than the bin (shorter than HALF a bin: no bin at all) and holding samples,
    # followed by longer ones - state carried from one interval to the next shows here
    for k in range(700 if ctx.quick else 8000):
        st, en = gen.rand_canonical(ctx.rng, 4, 16)
        if not st:
            continue
        ts = sorted(ctx.rng.randrange(0, 17) for _ in range(ctx.rng.randint(0, 9)))
        if k % 2:       # put samples on the ends of the first intervals
            ts = sorted(ts + [en[0]] + ([st[0]] if k % 4 == 1 else []))
        if k % 3 == 0:
            ts = [v - 11 for v in ts]; st = [v - 11 for v in st]; en = [v - 11 for v in en]
        one(ctx, list(ts), list(st), list(en), ctx.rng.choice([2, 3, 5, 7, 9, 12]), SCALES[k % len(SCALES)],
            ["s", "ms", "us"][k % 3], dtypes[k % 4], lines, meta)
    for k in range(60 if ctx.quick else 600):
        group_case(ctx, ctx.rng.choice([2000, 10**9]), lines, meta)
    out = ctx.lean.run(lines) if ctx.lean else None
    if out is not None:
        for (kind, inp, got), o in zip(meta, out):
            rows = [] if o == "-" else [tuple(int(v) for v in p.split(":")) for p in o.split(",")]
            if kind == "count":
                m = [(r[0], r[1]) for r in rows]
            else:
                m = [(r[0], (r[2] / r[1]) if r[1] else None) for r in rows]
            if m != got:
                ctx.fail("corr", "%s != model" % kind, inp, impl=got, model=m)


def replay(ctx, rec):
    n0 = len(ctx.failures); i = rec["input"]
    if "ts" not in i:
        return None      # main re-executes the recorded run
    lines, meta = [], []
    dt = {"None": None, "<class 'numpy.int64'>": np.int64, "<class 'numpy.int32'>": np.int32, "<class 'numpy.float64'>": np.float64}
    one(ctx, i["ts"], i["st"], i["en"], i["bin_ns"] * 2 // i["scale_ns"], i["scale_ns"], i["unit"], dt.get(i["dtype"]), lines, meta)
    for f in ctx.failures[n0:]:
        print(f["kind"], f["what"], "impl=", f["impl"], "expected=", f["expected"])
    return len(ctx.failures) == n0

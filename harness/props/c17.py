"""C17 — tuning curves are spikes per occupancy; decoding is their Bayes posterior."""
import numpy as np
import pandas as pd
from ..common import enc
from .. import gen
from ..impl import nap

RULE = ("discrete / 1-D / 2-D tuning curves on dyadic data (bin edges exact): groups with silent units and spikes outside the epochs, features on "
        "one or several epochs with values ON interior bin edges, explicit and inferred minmax, nb_bins 1..8, an `ep` that differs from the "
        "feature support; expected value recomputed from the property's own words (for every spike inside ep: nearest-in-time feature sample "
        "of the same epoch -> its bin; count / occupancy x feature rate; NaN for unvisited bins) and the conservation law "
        "sum(tc x occupancy / rate) == number of spikes whose paired value lies in the range; np.histogram counts == Lean model; continuous "
        "variants == per-bin mean, NaN unvisited; decode_1d / decode_2d vs a log-domain reference within 1e-9 (posterior rows sum to 1, "
        "decoded == bin centre of the maximum when the margin is clear), group as TsGroup / dict / pre-binned TsdFrame, bin sizes in s/ms/us, "
        "with and without the occupancy prior.  distinct = distinct configurations")
PROVED = ("histIdx_spec (NumPy's binning rule: half-open, last bin closed, interior edge goes right, never two bins), hist_conservation "
          "(bin counts sum to the number of in-range values; any number of bins), histIdx_defined, posterior_normalised, posterior_proportional, "
          "posterior_order (argmax preserved)")
NOT_PROVED = ("pairing of spikes with feature samples (C06 value_from), float bin edges of np.linspace / np.histogram (dyadic inputs make them exact), "
              "exp / power of the posterior (float, tolerance 1e-9), 2-D histogram (oracle)")
ASSUMPTIONS = ["feature values strictly inside explicit minmax or on interior edges (quantifier); spikes never equidistant from two feature samples"]


def pair_values(spk, ft, fv, st, en):
    """value of the nearest-in-time feature sample within the same epoch, for spikes inside the epochs"""
    out = []
    for s in spk:
        for a, b in zip(st, en):
            if a <= s <= b:
                idx = [i for i, t in enumerate(ft) if a <= t <= b]
                if idx:
                    j = min(idx, key=lambda i: abs(ft[i] - s))
                    out.append(fv[j])
                break
    return out


def np_hist_rule(vals, edges):
    n = len(edges) - 1
    c = [0] * n
    for v in vals:
        if v < edges[0] or v > edges[-1]:
            continue
        b = n - 1 if v == edges[-1] else max(i for i in range(n) if edges[i] <= v)
        c[b] += 1
    return c


def tuning(ctx, n_cases):
    rng = ctx.rng
    lines, metas = [], []
    for c in range(n_cases):
        # feature: samples at even seconds, integer values 0..8; epochs on the integer grid
        st, en = gen.rand_canonical(rng, 3, 60)
        if not st:
            st, en = [0], [58]
        ft = [t for t in range(0, 60, 2) if any(a <= t <= b for a, b in zip(st, en))]
        if len(ft) < 2:
            continue
        nb = rng.choice([1, 2, 4, 8])
        fv = [rng.randint(0, 8) for _ in ft]
        if c % 3 == 0:
            fv[0], fv[-1] = 0, 8
        feat = nap.Tsd(np.array(ft, dtype=float), np.array(fv, dtype=float), time_support=nap.IntervalSet(np.array(st, float), np.array(en, float)))
        # spikes at quarter offsets: never equidistant from two samples
        units = {}
        for k in rng.sample(range(0, 12), rng.randint(1, 4)):
            m = rng.randint(0, 12)
            units[k] = sorted(rng.randrange(0, 120) / 2.0 + 0.25 for _ in range(m))
        grp = nap.TsGroup({k: nap.Ts(np.array(v)) for k, v in units.items()}, time_support=nap.IntervalSet(-1.0, 62.0))
        use_ep = c % 4
        if use_ep == 0:
            ep, est, een = None, st, en
        else:
            est, een = gen.rand_canonical(rng, 2, 60)
            if not est:
                est, een = [1], [50]
            ep = nap.IntervalSet(np.array(est, float), np.array(een, float))
        if c % 2 == 0:
            mm, lo, hi = None, None, None
        elif c % 8 == 3:
            # an explicit bound that is exactly 0 (a legal, falsy number), every feature value strictly inside
            fv = [max(v, 1) for v in fv]
            feat = nap.Tsd(np.array(ft, dtype=float), np.array(fv, dtype=float), time_support=nap.IntervalSet(np.array(st, float), np.array(en, float)))
            lo, hi = 0, 16
            mm = (float(lo), float(hi))
        elif c % 8 == 7:
            fv = [v - 9 for v in fv]        # -9..-1, upper bound exactly 0
            feat = nap.Tsd(np.array(ft, dtype=float), np.array(fv, dtype=float), time_support=nap.IntervalSet(np.array(st, float), np.array(en, float)))
            lo, hi = -16, 0
            mm = (float(lo), float(hi))
        else:
            lo, hi = -8, 16
            mm = (float(lo), float(hi))
        inp = dict(level="tc1d", epochs=[st, en], ft=ft, fv=fv, units=units, ep=None if ep is None else [est, een], nb_bins=nb, minmax=mm)
        ctx.case(("t1", tuple(st), tuple(en), tuple(fv), tuple(sorted(units)), use_ep, nb, mm), inp if c % 53 == 0 else None)
        try:
            kw = {} if ep is None else dict(ep=ep)
            if mm is not None:
                kw["minmax"] = mm
            tc = nap.compute_1d_tuning_curves(grp, feat, nb, **kw)
        except Exception as e:
            ctx.fail("oracle", "compute_1d_tuning_curves raised %r" % (e,), inp); continue
        # samples of the feature inside ep (value_from pairs within ep's intervals, on the feature restricted to ... the feature itself)
        fin = [(t, v) for t, v in zip(ft, fv) if any(a <= t <= b for a, b in zip(est, een))]
        if lo is None:
            lo_, hi_ = min(fv), max(fv)
        else:
            lo_, hi_ = lo, hi
        if hi_ == lo_:
            continue
        edges = [lo_ + (hi_ - lo_) * i / nb for i in range(nb + 1)]
        occ = np_hist_rule([v for _, v in fin], edges)
        rate = len(ft) / float(sum(b - a for a, b in zip(st, en)))
        for k in units:
            pv = pair_values(units[k], ft, fv, est, een)
            cnt = np_hist_rule(pv, edges)
            exp = np.array([np.nan if o == 0 and n_ == 0 else (np.inf if o == 0 else n_ / o * rate) for n_, o in zip(cnt, occ)])
            got = tc[k].values.astype(float)
            if not np.allclose(got, exp, rtol=1e-12, atol=0, equal_nan=True):
                ctx.fail("oracle", "tuning curve of unit %d != spikes per occupancy x rate (nearest sample in the same epoch)" % k, inp,
                         impl=got.tolist(), expected=exp.tolist())
            ok = np.array(occ) > 0
            cons = float(np.nansum(np.where(ok, got * np.array(occ) / rate, 0.0)))
            nin = sum(1 for v in pv if edges[0] <= v <= edges[-1])
            if abs(cons - nin) > 1e-9:
                ctx.fail("oracle", "conservation: sum(tc x occupancy / rate) = %r != %d spikes in range" % (cons, nin), inp)
            # np.histogram vs the Lean model on the same integers (x8 keeps dyadic edges integral)
            lines.append("hist1 %s %s" % (enc([int(e * 8) for e in edges]), enc([int(v * 8) for v in pv])))
            metas.append((inp, [int(x) for x in np.histogram(np.array(pv, dtype=float), np.array(edges))[0]]))
        idx_exp = [(edges[i] + edges[i + 1]) / 2 for i in range(nb)]
        if not np.allclose(tc.index.values, idx_exp):
            ctx.fail("oracle", "tuning-curve index is not the bin centres", inp, impl=tc.index.values.tolist(), expected=idx_exp)
        # discrete tuning curves: spikes inside / total duration
        # the dictionary is given in ANY key order (string or integer labels): each row is looked up by its label
        sets = [(st, en), (est, een), ([st[0]], [en[0]])]
        labels = rng.choice([["a", "b", "c"], [2, 0, 1], ["stimC", "stimA", "stimB"], [10, 3, 7]])
        order = rng.sample(range(3), 3)
        dd = {labels[i]: nap.IntervalSet(np.array(sets[i][0], float), np.array(sets[i][1], float)) for i in order}
        dt = nap.compute_discrete_tuning_curves(grp, dd)
        ctx.count("discrete_dict_sorted" if [labels[i] for i in order] == sorted(labels) else "discrete_dict_unsorted")
        for name, (a_, b_) in zip(labels, sets):
            for k in units:
                n_in = sum(1 for s in units[k] if any(x <= s <= y for x, y in zip(a_, b_)))
                if not np.isclose(dt.loc[name, k], n_in / float(sum(y - x for x, y in zip(a_, b_))), rtol=1e-12):
                    ctx.fail("oracle", "discrete tuning curve != spikes / duration", inp, impl=float(dt.loc[name, k]))
        # continuous variant: per-bin mean of the signal, NaN for unvisited bins (explicit wide minmax: values strictly inside)
        if c % 2 == 1:
            sigv = np.array([[1.0 + i, 100.0 - 2 * i] for i in range(len(ft))])
            sig = nap.TsdFrame(np.array(ft, dtype=float), sigv, time_support=feat.time_support)
            try:
                tcc = nap.compute_1d_tuning_curves_continuous(sig, feat, nb, **kw)
                for col in range(2):
                    exp = []
                    for b in range(nb):
                        rows = [i for i, (t, v) in enumerate(zip(ft, fv)) if any(a <= t <= bb for a, bb in zip(est, een)) and edges[b] <= v < edges[b + 1]]
                        exp.append(np.nan if not rows else float(np.mean(sigv[rows, col])))
                    if not np.allclose(tcc.values[:, col].astype(float), np.array(exp), rtol=1e-12, equal_nan=True):
                        ctx.fail("oracle", "continuous tuning curve != per-bin mean (NaN unvisited)", inp, impl=tcc.values[:, col].tolist(), expected=exp)
            except Exception as e:
                ctx.fail("oracle", "compute_1d_tuning_curves_continuous raised %r" % (e,), inp)
        # 2-D: second feature = 8 - first
        if c % 5 == 0 and nb <= 4 and fin:
            f2 = nap.TsdFrame(np.array(ft, dtype=float), np.stack([np.array(fv, float), 8.0 - np.array(fv, float)], 1), time_support=feat.time_support)
            mm2 = None if mm is None else (mm[0], mm[1], mm[0], mm[1])
            try:
                kw2 = dict(kw); kw2.pop("minmax", None)
                if mm2 is not None:
                    kw2["minmax"] = mm2
                tc2, xy = nap.compute_2d_tuning_curves(grp, f2, nb, **kw2)
                # the 2-D function infers minmax from, and takes the rate of, the features RESTRICTED to ep
                fvin = [v for _, v in fin] if ep is not None else fv
                lo1, hi1 = (min(fvin), max(fvin)) if lo is None else (lo, hi)
                lo2, hi2 = (8 - max(fvin), 8 - min(fvin)) if lo is None else (lo, hi)
                if hi1 == lo1:
                    raise ZeroDivisionError
                e1 = [lo1 + (hi1 - lo1) * i / nb for i in range(nb + 1)]
                e2 = [lo2 + (hi2 - lo2) * i / nb for i in range(nb + 1)]
                rate2 = rate if ep is None else len(fin) / float(sum(b - a for a, b in zip(est, een)))
                fin_rows = [i for i, t in enumerate(ft) if any(a <= t <= b for a, b in zip(est, een))]
                occ2 = np.zeros((nb, nb))
                for i in fin_rows:
                    b1 = np_hist_rule([fv[i]], e1); b2 = np_hist_rule([8 - fv[i]], e2)
                    if sum(b1) and sum(b2):
                        occ2[b1.index(1), b2.index(1)] += 1
                for k in units:
                    pv = pair_values(units[k], ft, fv, est, een)
                    cnt2 = np.zeros((nb, nb))
                    for v in pv:
                        b1 = np_hist_rule([v], e1); b2 = np_hist_rule([8 - v], e2)
                        if sum(b1) and sum(b2):
                            cnt2[b1.index(1), b2.index(1)] += 1
                    with np.errstate(all="ignore"):
                        exp = cnt2 / occ2 * rate2
                    if not np.allclose(np.asarray(tc2[k], dtype=float), exp, rtol=1e-12, equal_nan=True):
                        ctx.fail("oracle", "2-D tuning curve of unit %d != spikes per occupancy x rate" % k, inp)
            except ZeroDivisionError:
                pass
            except Exception as e:
                ctx.fail("oracle", "compute_2d_tuning_curves raised %r" % (e,), inp)
    out = ctx.lean.run(lines) if ctx.lean else None
    if out is not None:
        for (inp, got), o in zip(metas, out):
            m = [] if o == "-" else [int(v) for v in o.split(",")]
            if got != m:
                ctx.fail("corr", "np.histogram counts != model histCounts", inp, impl=got, model=m)


def decoding(ctx, n_cases):
    rng = ctx.rng
    npr = np.random.RandomState(ctx.seed + 17)
    for c in range(n_cases):
        nb, nu = rng.randint(2, 6), rng.randint(1, 4)
        centres = np.arange(nb) + 0.5
        keys = sorted(rng.sample(range(0, 20), nu))
        tcv = npr.uniform(0.2, 6.0, size=(nb, nu))
        tcs = pd.DataFrame(index=centres, data=tcv, columns=keys)
        # the decoding epoch is the whole recording or only part of it; the occupancy prior is that of the feature passed
        bs = rng.choice([0.5, 1.0, 2.0])
        # ... or many short trials of exactly one bin each, far apart (the spacing of the bin centres is then NOT the bin size)
        ep = [nap.IntervalSet(0.0, 20.0), nap.IntervalSet([2.0, 12.0], [8.0, 18.0]), nap.IntervalSet(4.0, 10.0),
              nap.IntervalSet(np.arange(0.0, 16.0, 4.0), np.arange(0.0, 16.0, 4.0) + bs)][(c // 2) % 4]
        units = {k: np.sort(npr.uniform(0, 20, size=rng.randint(0, 25))) for k in keys}
        grp = nap.TsGroup({k: nap.Ts(v) for k, v in units.items()}, time_support=nap.IntervalSet(0.0, 20.0))
        unit, f = rng.choice([("s", 1.0), ("ms", 1e3), ("us", 1e6)])
        with_feat = c % 2 == 0
        fvals = npr.uniform(0, nb, size=40)
        if c % 4 == 0:
            # feature samples exactly ON interior bin edges (integers) and on the lowest edge: np.histogram's rule (right-open bins) decides
            fvals[::3] = npr.randint(0, nb, size=len(fvals[::3])).astype(float)
        feat = nap.Tsd(np.arange(0, 20, 0.5), fvals) if with_feat else None
        inp = dict(level="decode_1d", nb_bins=nb, keys=keys, bin_size=bs, unit=unit, prior=with_feat, epoch=[list(map(float, ep.start)), list(map(float, ep.end))])
        ctx.case(("d1", c, nb, nu, bs, unit, with_feat), inp if c % 17 == 0 else None)
        form = c % 3
        try:
            if form == 0:
                dec, P = nap.decode_1d(tcs, grp, ep, bs * f, time_units=unit, feature=feat)
            elif form == 1:
                # a plain dict, its keys inserted in an order that is NOT the sorted one: each unit keeps its own tuning curve
                order = keys[::-1] if c % 2 else keys[1:] + keys[:1]
                ctx.count("decode_dict_unsorted" if order != keys else "decode_dict_sorted")
                dec, P = nap.decode_1d(tcs, {k: nap.Ts(units[k]) for k in order}, ep, bs * f, time_units=unit, feature=feat)
            else:
                dec, P = nap.decode_1d(tcs, grp.count(bs, ep), ep, bs * f, time_units=unit, feature=feat)
        except Exception as e:
            ctx.fail("oracle", "decode_1d raised %r" % (e,), inp); continue
        cnt = grp.count(bs, ep).values
        if with_feat:
            occ = np.histogram(feat.values, np.arange(nb + 1))[0].astype(float)
        else:
            occ = np.ones(nb)
        logw = -bs * tcv.sum(1)[None, :] + np.log(occ / occ.sum())[None, :] + (cnt[:, None, :] * np.log(tcv)[None, :, :]).sum(-1)
        logw -= logw.max(1, keepdims=True)
        ref = np.exp(logw); ref /= ref.sum(1, keepdims=True)
        if P.values.shape != ref.shape or not np.allclose(P.values, ref, rtol=1e-9, atol=1e-12):
            ctx.fail("oracle", "posterior != normalised prior x exp(-bin x sum rates) x prod rate^count", inp,
                     impl=float(np.max(np.abs(P.values - ref))) if P.values.shape == ref.shape else P.values.shape)
        if not np.allclose(P.values.sum(1), 1.0, rtol=1e-9):
            ctx.fail("oracle", "posterior rows do not sum to 1", inp)
        srt = np.sort(ref, 1)
        clear = (srt[:, -1] - srt[:, -2]) > 1e-9
        if not np.array_equal(dec.values[clear], centres[np.argmax(ref, 1)][clear]):
            ctx.fail("oracle", "decoded value is not the bin centre of the posterior maximum", inp)
        # 2-D
        if c % 4 == 0:
            nx, ny = 2, 3
            tc2 = {k: npr.uniform(0.2, 5.0, size=(nx, ny)) for k in keys}
            xy = [np.arange(nx) + 0.5, np.arange(ny) + 0.5]
            feats = nap.TsdFrame(np.arange(0, 20, 0.5), np.stack([npr.uniform(0, nx, 40), npr.uniform(0, ny, 40)], 1)) if with_feat else None
            try:
                g2d = grp if c % 8 else {k: nap.Ts(units[k]) for k in keys[::-1]}
                d2, P2 = nap.decode_2d(tc2, g2d, ep, bs * f, xy, time_units=unit, features=feats)
            except Exception as e:
                ctx.fail("oracle", "decode_2d raised %r" % (e,), inp); continue
            T = np.stack([tc2[k].ravel() for k in keys], 1)          # (nx*ny, nu)
            if with_feat:
                o2 = np.histogram2d(feats.values[:, 0], feats.values[:, 1], [np.arange(nx + 1), np.arange(ny + 1)])[0].ravel()
            else:
                o2 = np.ones(nx * ny)
            lw = -bs * T.sum(1)[None, :] + np.log(o2 / o2.sum())[None, :] + (cnt[:, None, :] * np.log(T)[None, :, :]).sum(-1)
            lw -= lw.max(1, keepdims=True)
            r2 = np.exp(lw); r2 /= r2.sum(1, keepdims=True)
            g2 = np.asarray(getattr(P2, "values", P2)).reshape(len(cnt), -1)
            if g2.shape != r2.shape or not np.allclose(g2, r2, rtol=1e-9, atol=1e-12):
                ctx.fail("oracle", "2-D posterior != reference", inp)
            else:
                s2 = np.sort(r2, 1); cl = (s2[:, -1] - s2[:, -2]) > 1e-9
                am = np.argmax(r2, 1)
                expxy = np.stack([xy[0][am // ny], xy[1][am % ny]], 1)
                if not np.array_equal(np.asarray(d2.values)[cl], expxy[cl]):
                    ctx.fail("oracle", "2-D decoded position is not the bin centre of the maximum", inp)


def run(ctx):
    tuning(ctx, 300 if ctx.quick else 4000)
    decoding(ctx, 100 if ctx.quick else 1000)


def replay(ctx, rec):
    print("re-executing the recorded run of `./check C17 quick` with VERIF_SEED=%s; failing input: %s" % (rec.get("seed"), rec.get("input")))
    return None

"""C16 — correlograms and peri-event alignment report true lags to the reference events."""
import numpy as np
from ..common import enc, dec, ns, ns_arr
from .. import gen
from ..impl import nap, farr, iset, iset_ns
from pynapple.process.correlograms import _cross_correlogram
from pynapple.process import _process_functions as P

RULE = ("cross/auto/event correlograms: random spike trains on the dyadic lattice 2^-3 s (coincident spikes, lags exactly "
        "on bin edges, empty targets), bin sizes 2^-2..1 s, windows 1..3 s, one or two epochs, norm on/off, reverse on/off, "
        "units s/ms: kernel counts compared with the Lean model and with the brute-force lag histogram, API values with "
        "the formula count/(n_ref*binsize)[/rate] (tolerance 1e-9); compute_perievent: windows incl. samples on both "
        "edges, asymmetric windows, Ts/Tsd/TsGroup; compute_perievent_continuous: events closer to an epoch edge than the "
        "window on either/both sides, one or many epochs, kernel slice table compared with the model. "
        "distinct = distinct (reference, target, bin, window) / (samples, events, epochs, window)")
PROVED = ("xcorr_histogram (bin p of the raw correlogram = number of pairs with lag in the half-open bin; sorted trains of any length), "
          "ccFwd_spec, ccBack_id, ccCount_counts, ccBins_counts, ccOuter_counts, perievent_window (slice = lags in [-w0, w1)), nbins_odd; "
          "continuous peri-event: pcK_entries (the e-th event of epoch k gets the slice around a NEAREST sample of THAT epoch, clipped to "
          "the epoch; events of an epoch without samples keep NaN columns; sorted samples and events of any length) from pcInner_closest / "
          "pcI_nearest, and pc_layout (row o holds the sample o - w0 steps from it iff that position is inside the epoch)")
NOT_PROVED = "normalisations (rate, reverse), lag-0 zeroing, the scatter of the stored slices into the output array (fancy indexing of the caller): oracle + correspondence only"
ASSUMPTIONS = ["spike times on a dyadic lattice so that the accumulated float bin edges are exact"]
U = 125000000     # 2^-3 s in ns


def brute_hist(t1, t2, b, nbins):
    """lags t2 - t1 (integers, unit U); bin j = [ (j - nbins//2) * b - b/2, ... + b ) ; doubled arithmetic"""
    C = [0] * nbins
    for r in t1:
        for t in t2:
            num = 2 * (t - r) + nbins * b          # doubled lag + doubled half window
            if 0 <= num < 2 * b * nbins:
                C[num // (2 * b)] += 1
    return C


def xcorr_cases(ctx, n):
    lines, meta = [], []
    for k in range(n):
        t1 = gen.rand_sorted(ctx.rng, 8, 40, dup=0.2); t2 = gen.rand_sorted(ctx.rng, 8, 40, dup=0.2) if k % 5 else []
        b = ctx.rng.choice([2, 4, 8]); w = ctx.rng.choice([8, 12, 16, 24, 5])
        if k % 2:
            t1 = [v - 20 for v in t1]; t2 = [v - 20 for v in t2]
        inp = dict(level="kernel", t1=t1, t2=t2, bin=b, win=w, unit="2^-3 s")
        ctx.case(("x", tuple(t1), tuple(t2), b, w), inp if k % 701 == 3 else None)
        C, B = _cross_correlogram(farr(t1, U), farr(t2, U), b * U / 1e9, w * U / 1e9)
        nb = len(C)
        got = [int(round(v * max(len(t1), 1) * b * U / 1e9)) for v in C] if t1 else [0] * nb
        exp = brute_hist(t1, t2, b, nb)
        if got != exp:
            ctx.fail("oracle", "cross-correlogram counts differ from the lag histogram", inp, impl=got, expected=exp)
        centres = [int(round(v * 1e9 / U * 2)) for v in B]
        if centres != [2 * (j - nb // 2) * b for j in range(nb)]:
            ctx.fail("oracle", "bin centres are not integer multiples of binsize", inp, impl=centres)
        lines.append("xcorr %s %s %d %d" % (enc(t1), enc(t2), b, w)); meta.append((inp, got))
    out = ctx.lean.run(lines) if ctx.lean else None
    if out is not None:
        for (inp, got), o in zip(meta, out):
            if dec(o) != got:
                ctx.fail("corr", "_cross_correlogram != model", inp, impl=got, model=dec(o))


def api_corr(ctx, n):
    for k in range(n):
        trains = {i: gen.rand_sorted(ctx.rng, 10, 64, dup=0.1) for i in (2, 5, 9)}
        b = ctx.rng.choice([2, 4, 8]); w = ctx.rng.choice([8, 16, 24])
        eps = ctx.rng.choice([None, ([0], [40]), ([0, 40], [24, 64])])
        norm = bool(k % 2); rev = bool((k // 2) % 2); unit = ["s", "ms"][k % 2]; f = {"s": 1e9, "ms": 1e6}[unit]
        inp = dict(level="api", trains=trains, bin=b, win=w, ep=eps, norm=norm, reverse=rev, unit=unit)
        ctx.case(("ac", repr(inp)))
        full = iset([0], [64], U)
        g = nap.TsGroup({i: nap.Ts(farr(v, U)) for i, v in trains.items()}, time_support=full)
        ep = None if eps is None else iset(eps[0], eps[1], U)
        gr = g if ep is None else g.restrict(ep)
        tr = {i: [int(round(v * 1e9 / U)) for v in gr[i].t] for i in trains}
        tot = 64 if eps is None else sum(e - s for s, e in zip(*eps))
        rate = {i: (len(tr[i]) / (tot * U / 1e9)) for i in trains}
        kw = {} if ep is None else dict(ep=ep)
        cc = nap.compute_crosscorrelogram(g, b * U / f, w * U / f, norm=norm, reverse=rev, time_units=unit, **kw)
        for (i, j) in cc.columns:
            ref, tg = tr[i], tr[j]
            nb = len(cc)
            h = brute_hist(ref, tg, b, nb)
            exp = [c / (max(len(ref), 1) * b * U / 1e9) / (rate[j] if norm else 1.0) if (len(ref) and (rate[j] or not norm)) else np.nan for c in h]
            gotv = cc[(i, j)].values
            if not np.allclose(np.nan_to_num(gotv, nan=-7), np.nan_to_num(np.array(exp, dtype=float), nan=-7), rtol=1e-9, atol=1e-12):
                ctx.fail("oracle", "crosscorrelogram (%d,%d) differs from lag histogram / (n_ref*binsize)[/rate]" % (i, j), inp,
                         impl=list(map(float, gotv)), expected=exp)
        expected_pairs = [(2, 5), (2, 9), (5, 9)]
        if rev:
            expected_pairs = [(b_, a_) for a_, b_ in expected_pairs]
        if list(cc.columns) != expected_pairs:
            ctx.fail("oracle", "crosscorrelogram pairs/reverse", inp, impl=list(cc.columns))
        ac = nap.compute_autocorrelogram(g, b * U / f, w * U / f, norm=norm, time_units=unit, **kw)
        for i in trains:
            h = brute_hist(tr[i], tr[i], b, len(ac)); h[len(ac) // 2] = 0
            exp = [c / (max(len(tr[i]), 1) * b * U / 1e9) / (rate[i] if norm else 1.0) if tr[i] else np.nan for c in h]
            if tr[i]:
                exp[len(ac) // 2] = 0.0
            gotv = ac[i].values
            if tr[i] and not np.allclose(gotv, np.array(exp), rtol=1e-9, atol=1e-12):
                ctx.fail("oracle", "autocorrelogram %d" % i, inp, impl=list(map(float, gotv)), expected=exp)
        # lag 0 of an autocorrelogram is zero for EVERY bin size, also when the centre of the middle bin is not the float 0.0
        if k % 5 == 0:
            for bsz, wsz, un in ((0.005, 0.05, "s"), (0.005, 1.0, "s"), (5.0, 50.0, "ms"), (7000.0, 70000.0, "us"), (0.003, 0.03, "s")):
                g0 = nap.TsGroup({1: nap.Ts(np.arange(1.0, 40.0, 3.0)), 4: nap.Ts(np.arange(2.0, 30.0, 2.0))})
                a0 = nap.compute_autocorrelogram(g0, bsz, wsz, time_units=un)
                mid = len(a0) // 2
                ctx.case(("ac0", bsz, wsz, un))
                if len(a0) % 2 != 1 or abs(float(a0.index.values[mid])) > 1e-12 or any(float(a0[c].values[mid]) != 0.0 for c in a0.columns):
                    ctx.fail("oracle", "autocorrelogram is not zero at lag 0", dict(level="api-ac0", binsize=bsz, windowsize=wsz, unit=un),
                             impl=[float(a0.index.values[mid])] + [float(a0[c].values[mid]) for c in a0.columns])
        # the bins cover the requested window for decimal (non-dyadic) sizes too: floor(2 w / b) bins, made odd, centred on the
        # multiples of b - decided in exact rational arithmetic, not by a float floor division
        if k % 5 == 1:
            from fractions import Fraction as Fr
            for bs_, ws_ in (("0.002", "1.5"), ("0.01", "0.1"), ("0.005", "0.05"), ("0.1", "0.7"), ("0.001", "0.3"), ("0.003", "0.03"),
                             ("0.02", "0.3"), ("0.1", "0.75"), ("0.0005", "0.0355"), ("0.007", "0.5")):
                nb = int(2 * Fr(ws_) / Fr(bs_)); nb += (nb % 2 == 0)
                g0 = nap.TsGroup({1: nap.Ts(np.arange(1.0, 40.0, 3.0)), 4: nap.Ts(np.arange(2.0, 30.0, 2.0))})
                ctx.case(("nbins", bs_, ws_))
                for fname, cc in (("crosscorrelogram", nap.compute_crosscorrelogram(g0, float(bs_), float(ws_))),
                                  ("autocorrelogram", nap.compute_autocorrelogram(g0, float(bs_), float(ws_)))):
                    idx = cc.index.values
                    okc = len(idx) == nb and np.allclose(idx, (np.arange(nb) - nb // 2) * float(bs_), rtol=0, atol=1e-9)
                    if not okc:
                        ctx.fail("oracle", "%s: bins do not cover the requested window (%d bins, lags %.6f..%.6f; expected %d bins up to +-%.6f)" %
                                 (fname, len(idx), idx[0], idx[-1], nb, (nb // 2) * float(bs_)), dict(level="api-nbins", binsize=bs_, windowsize=ws_))
        ev = nap.Ts(farr(trains[2], U), time_support=full)
        ec = nap.compute_eventcorrelogram(g, ev, b * U / f, w * U / f, norm=norm, time_units=unit, **kw)
        evr = tr[2] if ep is not None else trains[2]
        for i in trains:
            h = brute_hist(evr, tr[i], b, len(ec))
            exp = [c / (max(len(evr), 1) * b * U / 1e9) / (rate[i] if (norm and rate[i]) else 1.0) for c in h]
            if evr and tr[i] and not np.allclose(ec[i].values, np.array(exp), rtol=1e-9, atol=1e-12):
                ctx.fail("oracle", "eventcorrelogram %d" % i, inp, impl=list(map(float, ec[i].values)), expected=exp)


def perievent(ctx, n):
    for k in range(n):
        ts = gen.rand_sorted(ctx.rng, 12, 30, dup=0.2); refs = sorted(set(gen.rand_sorted(ctx.rng, 5, 30, dup=0)))
        if not ts or not refs:
            continue
        w0, w1 = ctx.rng.choice([(2, 2), (0, 3), (3, 0), (1, 4), (5, 5)])
        sc = ctx.rng.choice([10**9, 7812500, 10**6, 2000]); unit = ctx.rng.choice(["s", "ms", "us"]); f = {"s": 1e9, "ms": 1e6, "us": 1e3}[unit]
        inp = dict(level="perievent", ts=ts, refs=refs, w=(w0, w1), scale_ns=sc, unit=unit)
        ctx.case(("p", tuple(ts), tuple(refs), w0, w1))
        full = iset([-1], [31], sc)
        if k % 2:
            x = nap.Tsd(farr(ts, sc), np.arange(len(ts)) + 1.0, time_support=full)
        else:
            x = nap.Ts(farr(ts, sc), time_support=full)
        tref = nap.Ts(farr(refs, sc), time_support=full)
        mm = (w0 * sc / f, w1 * sc / f) if (w0, w1) != (5, 5) else 5 * sc / f
        pe = nap.compute_perievent(x, tref, mm, time_unit=unit)
        if list(pe.keys()) != list(range(len(refs))) or ns_arr(pe.get_info("ref_times")) != [r * sc for r in refs]:
            ctx.fail("oracle", "perievent keys / ref_times", inp, impl=[list(pe.keys()), ns_arr(pe.get_info("ref_times"))])
            continue
        for i, r in enumerate(refs):
            if sc not in (10**9, 7812500) and any(t == r - w0 or t == r + w1 for t in ts):
                # a sample exactly on a window edge, on a non-dyadic lattice: `tref - window` is a float difference whose
                # last ulp decides; the integer model does not (DESIGN 2.3)
                ctx.skip("float_ambiguous_sample_on_window_edge"); continue
            idx = [j for j, t in enumerate(ts) if r - w0 <= t < r + w1]
            exp = [(ts[j] - r) * sc for j in idx]
            if ns_arr(pe[i].t) != exp:
                ctx.fail("oracle", "perievent lags of reference %d" % r, inp, impl=ns_arr(pe[i].t), expected=exp)
            if k % 2 and [int(v) - 1 for v in pe[i].values] != idx:
                ctx.fail("oracle", "perievent values not paired with lags", inp, impl=list(pe[i].values), expected=idx)


def pericont(ctx, n):
    lines, meta = [], []
    for k in range(n):
        nS = ctx.rng.randint(2, 14)
        ts = list(range(nS)) if k % 3 else sorted(set(gen.rand_sorted(ctx.rng, 12, 20, dup=0)))
        if len(ts) < 2:
            continue
        st, en = gen.rand_canonical(ctx.rng, 3, 22) if k % 2 else ([0], [21])
        refs = sorted(set(gen.rand_sorted(ctx.rng, 5, 21, dup=0)))
        w0, w1 = ctx.rng.choice([(1, 1), (2, 2), (3, 3), (0, 2), (2, 0), (3, 1)])
        inp = dict(level="pericont", ts=ts, refs=refs, st=st, en=en, w=(w0, w1))
        ctx.case(("pc", tuple(ts), tuple(refs), tuple(st), tuple(en), w0, w1), inp if k % 301 == 1 else None)
        if not st:
            continue
        data = np.arange(len(ts)) + 100.0
        idx, sl, nt, sw = P._jitcontinuous_perievent(farr(ts, 10**9), farr(refs, 10**9), farr(st, 10**9), farr(en, 10**9), np.array([w0, w1]))
        got = ([int(v) for v in idx], [[int(a), int(b), int(c)] for (a, b), c in zip(sl, sw)])
        lines.append("pericont %s %s %s %s %d %d" % (enc(ts), enc(refs), enc(st), enc(en), w0, w1)); meta.append((inp, got))
        # oracle on the public scatter
        out = P._perievent_continuous(farr(ts, 10**9), data, farr(refs, 10**9), farr(st, 10**9), farr(en, 10**9), np.array([w0, w1]))
        iv = lambda t: next((q for q, (a, b) in enumerate(zip(st, en)) if a <= t <= b), None)
        rin = [r for r in refs if iv(r) is not None]
        if out.shape != (w0 + w1 + 1, len(rin)):
            ctx.fail("oracle", "perievent_continuous shape", inp, impl=list(out.shape), expected=[w0 + w1 + 1, len(rin)]); continue
        tsin = [(j, t) for j, t in enumerate(ts) if iv(t) is not None]
        for c, r in enumerate(rin):
            same = [(j, t) for j, t in tsin if iv(t) == iv(r)]
            col = out[:, c]
            if not same:
                continue      # an epoch with events but no samples: rows are whatever slice (0,0) gives (checked via the model)
            dmin = min(abs(t - r) for _, t in same)
            cands = [p for p, (j, t) in enumerate(same) if abs(t - r) == dmin]
            ok = False
            for p in cands:
                exp = []
                for o in range(-w0, w1 + 1):
                    q = p + o
                    exp.append(data[same[q][0]] if 0 <= q < len(same) else np.nan)
                if np.array_equal(np.nan_to_num(col, nan=-1), np.nan_to_num(np.array(exp), nan=-1)):
                    ok = True
            if not ok:
                ctx.fail("oracle", "perievent_continuous column of reference %d is not the window around its nearest sample" % r,
                         inp, impl=[None if np.isnan(v) else float(v) for v in col])
    out = ctx.lean.run(lines) if ctx.lean else None
    if out is not None:
        for (inp, got), o in zip(meta, out):
            a, b = o.split("|")
            m = (dec(a), [] if b == "-" else [[int(v) for v in p.split(":")] for p in b.split(",")])
            if m != got:
                ctx.fail("corr", "_jitcontinuous_perievent != model", inp, impl=got, model=m)


def perievent_decimal_edges(ctx, n):
    """decimal times (the float sums r - w, r + w carry noise): a sample exactly on the LEFT edge of the window is returned with lag -w,
    a sample exactly on the RIGHT edge is not"""
    rng = ctx.rng
    for k in range(n):
        dec = rng.choice([1, 2])
        r = round(rng.uniform(0, 100), dec); w = round(rng.uniform(0.1, 3), dec); w2 = round(rng.uniform(0.1, 3), dec) if k % 2 else w
        a, b = round(r - w, dec), round(r + w2, dec)
        mid = round(r + (w2 - w) / 4, 3)
        inp = dict(level="perievent-decimal-edges", ref=r, window=[-w, w2], samples=[a, mid, b])
        ctx.case(("pde", r, w, w2), inp if k % 37 == 0 else None)
        ctx.count("perievent_decimal_edges")
        for form in ("Ts", "Tsd"):
            x = nap.Ts(t=np.array([a, mid, b])) if form == "Ts" else nap.Tsd(t=np.array([a, mid, b]), d=np.array([1.0, 2.0, 3.0]))
            try:
                g = nap.compute_perievent(x, nap.Ts(t=np.array([r])), (-w, w2))
                lags = np.asarray(g[0].t)
            except Exception as e:
                ctx.fail("oracle", "compute_perievent raised %r" % (e,), dict(inp, form=form)); continue
            want = [-w, round(mid - r, 3)]
            if len(lags) != 2 or abs(lags[0] + w) > 1e-9 or abs(lags[1] - want[1]) > 1e-9:
                ctx.fail("oracle", "compute_perievent: the sample on the left edge is kept, the one on the right edge is not", dict(inp, form=form),
                         impl=[float(v) for v in lags], expected=want)


def pericont_public(ctx, n):
    """compute_perievent_continuous (the public wrapper: window in TIME, converted to sample steps) on a regularly sampled recording made of two
    sessions with a gap between them: one row per sample step o = -w..w labelled o x dt, column j = the samples o steps from the sample at the
    j-th reference time within the same session, NaN beyond the session"""
    rng = ctx.rng
    for k in range(n):
        dt = rng.choice([1.0, 0.5, 0.01])
        n1, n2 = rng.randint(6, 30), rng.randint(6, 30)
        gap = rng.choice([3, 50, 400])
        steps = np.concatenate([np.arange(n1), n1 + gap + np.arange(n2)])
        t = np.round(steps * dt, 9)
        d = np.arange(len(t)) + 100.0
        sup = nap.IntervalSet([t[0], t[n1]], [t[n1 - 1], t[-1]])
        cls = k % 2
        x = nap.Tsd(t, d, time_support=sup) if cls == 0 else nap.TsdFrame(t, np.stack([d, d + 1000], 1), time_support=sup)
        w = rng.randint(1, 5)
        pos = sorted(rng.sample(range(len(t)), rng.randint(1, 4)))
        inp = dict(level="pericont-public", dt=dt, sessions=[n1, n2], gap_steps=gap, window_steps=w, ref_positions=pos, cls=["Tsd", "TsdFrame"][cls])
        ctx.case(("pcp", dt, n1, n2, gap, w, tuple(pos), cls), inp if k % 29 == 0 else None)
        ctx.count("pericont_public")
        try:
            out = nap.compute_perievent_continuous(x, nap.Ts(t[pos]), (-(w * dt), w * dt))
        except Exception as e:
            ctx.fail("oracle", "compute_perievent_continuous raised %r" % (e,), inp); continue
        v = np.asarray(out.values)
        lags = np.asarray(out.t)
        if v.shape[:2] != (2 * w + 1, len(pos)) or not np.allclose(lags, np.arange(-w, w + 1) * dt, atol=1e-9):
            ctx.fail("oracle", "compute_perievent_continuous: rows are not the sample steps -w..w labelled o x dt", inp,
                     impl=dict(shape=list(v.shape), lags=[float(a) for a in lags[:12]])); continue
        col0 = v if v.ndim == 2 else v[:, :, 0]
        for j, p_ in enumerate(pos):
            lo, hi = (0, n1) if p_ < n1 else (n1, len(t))
            exp = [d[p_ + o] if lo <= p_ + o < hi else np.nan for o in range(-w, w + 1)]
            if not np.array_equal(np.nan_to_num(col0[:, j], nan=-1.0), np.nan_to_num(np.array(exp), nan=-1.0)):
                ctx.fail("oracle", "compute_perievent_continuous: column %d is not the window of samples around its reference within the session" % j, inp,
                         impl=[None if np.isnan(a) else float(a) for a in col0[:, j]], expected=[None if np.isnan(a) else float(a) for a in exp])
                break


def run(ctx):
    pericont_public(ctx, 120 if ctx.quick else 2000)
    perievent_decimal_edges(ctx, 150 if ctx.quick else 2500)
    q = ctx.quick
    xcorr_cases(ctx, 3000 if q else 50000)
    api_corr(ctx, 25 if q else 400)
    perievent(ctx, 300 if q else 5000)
    pericont(ctx, 500 if q else 5000)


def replay(ctx, rec):
    print("re-executing the recorded run of `./check C16 quick` with VERIF_SEED=%s; failing input: %s" % (rec.get("seed"), rec.get("input")))
    return None

"""C15 — compiled kernels stay inside their arrays and read only assigned variables."""
import itertools, json, os, subprocess, sys
import numpy as np
from ..common import VERIF, WORK
from .. import gen, kernels

RULE = ("for 16 of the 17 compiled routines: every API-reachable argument combination of sizes 0..3 on the grid {0..3} "
        "(empty series, single sample, duplicates, empty IntervalSet, epochs before/after/between the samples; thorough: "
        "sizes 0..4 on {0..4} sampled) is executed (a) interpreted (NUMBA_DISABLE_JIT=1 subprocess) on bounds-checking "
        "arrays that also reject negative indices, (b) compiled, (c) on the Lean model; outcome classes ok / out-of-bounds / "
        "unbound-local and results are compared. _jitperievent_trigger_average: kernel level vs model `eta` (exact rationals) on count bins laid out "
        "per epoch with any feature samples, and through compute_event_trigger_average interpreted vs compiled. distinct = distinct (kernel, arguments)")
PROVED = ("all array reads of the models of restrict*, in_interval, intersect, union, diff (incl. end2[j-1]), union_isets, "
          "fix_iset, remove_nan, cross_correlogram, overlap_split are a[i]'h reads: the in-bounds proofs are checked when "
          "the definitions are elaborated (no hypothesis beyond equal lengths of starts/ends); restrict_writes_in_bounds; "
          "restrictCount_counts (one counter per interval, counters add up to the number of selected samples); jitbin_safe "
          "(jitcount / _jitbin_array, ANY input); valuefrom_safe + valuefrom_safe_on_restricted; pericont_safe; threshold_safe "
          "(ANY series inside a canonical support, sizes 0 and 1 included since fix 6abb03b / efb22ea; threshold_empty / "
          "threshold_one_sample regression witnesses); eta_safe "
          "(_jitperievent_trigger_average: every read in bounds, scan position assigned only from a computed i_start, ANY input)")
NOT_PROVED = ("the float arithmetic of the event-trigger average (model in exact rationals, compared within 1e-9); count columns beyond one and "
              "feature values of more than one dimension are handled by the kernel uniformly and are not in the model")
ASSUMPTIONS = ["numba implements the Python text of a kernel on executions that stay in bounds and read assigned locals"]
TRUSTED_EXTRA = ["the interpreted twin (NUMBA_DISABLE_JIT=1) is the same source text as the compiled kernel"]


def restrict_count(ts, st, en):
    c = [sum(1 for t in ts if s <= t <= e) for s, e in zip(st, en)]
    return c


def gen_cases(ctx):
    G, N = (3, 3) if ctx.quick else (4, 3)
    sets = gen.canonical_sets(G, 2)
    tss = gen.multisets(G, N)
    cases = []
    for ts in tss:
        for st, en in sets:
            a = dict(ts=ts, st=st, en=en)
            cases += [("restrict", a), ("restrictc", a), ("inint", a)]
            for bs in (1, 2, 3, 5):
                cases.append(("count", dict(a, bs=bs)))
            cases.append(("binarray", dict(a, bs=ctx.rng.choice([1, 2, 3]), dat=[(7 * i + 3) % 11 for i in range(len(ts))])))
    small_ts = gen.multisets(G, 2) + [t for t in tss if len(t) == 3][::3]
    for ts in small_ts:
        for tt in small_ts:
            for st, en in sets:
                tsr = [t for t in ts if any(s <= t <= e for s, e in zip(st, en))]
                ttr = [t for t in tt if any(s <= t <= e for s, e in zip(st, en))]
                for mode in (0, 1, 2):
                    cases.append(("valuefrom", dict(ts=tsr, tt=ttr, c=restrict_count(ts, st, en), ct=restrict_count(tt, st, en),
                                                    st=st, en=en, mode=mode)))
                cases.append(("pericont", dict(ts=ts, tt=tt, st=st, en=en, w=ctx.rng.choice([[1, 1], [0, 2], [2, 0], [0, 0]]))))
    for n in range(2, 5):
        for mask in itertools.product([0, 1], repeat=n):
            if 0 < sum(mask) < n:
                cases.append(("removenan", dict(mask=list(mask))))
    # threshold: samples inside a canonical, non-empty support
    for st, en in sets:
        if not st:
            continue
        for ts in tss:
            if all(any(s <= t <= e for s, e in zip(st, en)) for t in ts):
                for mask in itertools.product([0, 1], repeat=len(ts)):
                    cases.append(("threshold", dict(ts=ts, mask=list(mask), st=st, en=en)))
    cases.append(("threshold", dict(ts=[], mask=[], st=[], en=[])))
    # a series with a single timestamp (or duplicates of one) built without time_support has the EMPTY default support:
    # Tsd([2.], [5.]).threshold(0.) reaches the kernel with samples and no epoch at all
    for ts in ([2], [0], [2, 2], [2, 2, 2]):
        for mask in itertools.product([0, 1], repeat=len(ts)):
            cases.append(("threshold", dict(ts=ts, mask=list(mask), st=[], en=[])))
    for A in sets:
        for B in sets:
            a = dict(s1=A[0], e1=A[1], s2=B[0], e2=B[1])
            cases += [("intersect", a), ("union", a), ("diff", a)]
    for A in sets[::2]:
        for B in sets[::3]:
            for C in sets[::4]:
                st = A[0] + B[0] + C[0]; en = A[1] + B[1] + C[1]
                o = sorted(range(len(st)), key=lambda i: (st[i], en[i]))
                cases.append(("unionisets", dict(st=[st[i] for i in o], en=[en[i] for i in o])))
    for st in gen.multisets(G, 3):
        for en in gen.multisets(G, len(st), len(st)):
            cases.append(("fixiset", dict(st=st, en=en)))
    for t1 in small_ts:
        for t2 in small_ts:
            for bs, ws in ((1, 1), (1, 2), (2, 3), (1, 0)):
                cases.append(("xcorr", dict(t1=t1, t2=t2, bs=bs, ws=ws)))
    for st, en in sets:
        for L, step in ((2, 1), (2, 2), (4, 3), (4, 4), (1, 1)):
            cases.append(("ovsplit", dict(st=st, en=en, L=L, step=step)))
    # supports mixing epochs long enough to hold several windows with epochs shorter than one window / than the overlap
    big = gen.canonical_sets(9, 3)
    if ctx.quick:
        big = big[::3]
    for st, en in big:
        for L, step in ((4, 1), (4, 2), (4, 3), (2, 1), (2, 2), (8, 2)):
            cases.append(("ovsplit", dict(st=st, en=en, L=L, step=step)))
    # event-trigger-average kernel: count bins laid out per epoch as `count(bs, ep)` does, any feature samples
    rng = ctx.rng
    for _ in range(1500 if ctx.quick else 15000):
        st, en = gen.rand_canonical(rng, 3, 14)
        bs = rng.choice([1, 1, 2])
        ta = [x for a, b in zip(st, en) for x in range(a, b - bs + 1, bs)]
        ca = [rng.choice([0, 1, 1, 2, 3]) for _ in ta]
        nf = rng.choice([0, 1, 2, 5, 9, 14])
        tt = sorted(rng.choice(range(0, 15)) for _ in range(nf))
        cases.append(("eta", dict(ta=ta, ca=ca, tt=tt, dd=[rng.randint(-5, 9) for _ in tt], st=st, en=en,
                                  w=rng.choice([[0, 0], [1, 1], [2, 1], [1, 2], [3, 3], [0, 2]]), bs=bs)))
    if ctx.quick and len(cases) > 60000:
        keep = cases[::2]
        cases = keep
    return cases


def eta_cases(ctx):
    """event-trigger average: API-level, interpreted vs compiled"""
    out = []
    for k in range(30 if ctx.quick else 300):
        n = ctx.rng.randint(0, 6)
        spikes = sorted(ctx.rng.sample(range(0, 40), min(n, 10)))
        # feature samples: a regular run from 0, or any subset of a 0.5 s grid (late first sample, gaps, none inside an epoch)
        if k % 2 == 0:
            ft = [float(i) for i in range(ctx.rng.randint(2, 12))]
        else:
            ft = [x / 2 for x in sorted(ctx.rng.sample(range(0, 24), ctx.rng.randint(1, 8)))]
        out.append(dict(spikes=[s / 4 for s in spikes], ft=ft, bs=ctx.rng.choice([0.5, 1.0]),
                        win=ctx.rng.choice([1.0, 2.0]),
                        ep=ctx.rng.choice([[[0, 10]], [[0, 3], [5, 10]], [[6, 10]], [[0, 2], [3, 5], [6, 10]], [[0, 4.5], [5, 10]]])))
    return out


ETA_SNIPPET = r'''
import json, sys, warnings; warnings.simplefilter("ignore")
import numpy as np, pynapple as nap
cases = json.load(open(sys.argv[1])); out = []
for c in cases:
    try:
        g = nap.TsGroup({0: nap.Ts(np.array(c["spikes"]))}, time_support=nap.IntervalSet(0, 10))
        feat = nap.Tsd(t=np.array(c["ft"]), d=np.arange(len(c["ft"])) * 1.0 + 1, time_support=nap.IntervalSet(0, 12))
        ep = nap.IntervalSet(start=[e[0] for e in c["ep"]], end=[e[1] for e in c["ep"]])
        r = nap.compute_event_trigger_average(g, feat, c["bs"], (c["win"], c["win"]), ep)
        out.append(["ok", [None if np.isnan(v) else round(float(v), 9) for v in np.asarray(r.values).ravel()]])
    except (IndexError, UnboundLocalError) as e:
        out.append([type(e).__name__, str(e)])
    except Exception as e:
        out.append(["exc", type(e).__name__ + ": " + str(e)])
json.dump(out, open(sys.argv[2], "w"))
'''


def run_sub(script_args, env_extra):
    env = dict(os.environ); env.update(env_extra)
    p = subprocess.run([sys.executable] + script_args, cwd=VERIF, env=env, capture_output=True, text=True, timeout=3000)
    if p.returncode != 0:
        raise RuntimeError("subprocess failed: " + p.stderr[-800:])


def run(ctx):
    cases = gen_cases(ctx)
    cf = os.path.join(WORK, "c15-cases-%d.json" % os.getpid()); of = cf.replace("cases", "out")
    json.dump(cases, open(cf, "w"))
    run_sub(["-m", "harness.interp", cf, of], {"NUMBA_DISABLE_JIT": "1"})
    interp = json.load(open(of))
    os.remove(cf); os.remove(of)
    lines = [kernels.line(k, a) for k, a in cases]
    model = ctx.lean.run(lines) if ctx.lean else None
    for n, (k, a) in enumerate(cases):
        inp = dict(kernel=k, args=a)
        ctx.case((k, json.dumps(a, sort_keys=True)), inp if n % 9973 == 5 else None)
        ctx.count(k)
        oc, res = interp[n]
        fctx = dict(kernel="jit" + k, n=len(a.get("ts", [0, 0])))
        if oc != "ok":
            ctx.count("interp_" + oc)
            ctx.fail("oracle", "%s: interpreted twin raised %s (%s)" % (k, oc, res), inp, impl=[oc, res], finding_ctx=fctx)
        m = None
        if model is not None:
            m = kernels.parse(k, model[n])
            mo = "ok" if not isinstance(m, str) else {"ERR oob": "oob", "ERR unbound": "unbound"}.get(m, m)
            if mo != oc and not (mo in ("oob",) and oc == "exc"):
                ctx.fail("corr", "%s: outcome class interpreted=%s model=%s" % (k, oc, mo), inp, impl=[oc, res], model=m)
        if oc == "ok":
            try:
                comp = kernels.call(k, a)
            except Exception as e:
                comp = "exc %r" % (e,)
            if not kernels.same(k, comp, res):
                ctx.fail("oracle", "%s: compiled result differs from interpreted result" % k, inp, impl=comp, expected=res)
            if m is not None and not isinstance(m, str) and not kernels.same(k, m, res):
                ctx.fail("corr", "%s: model result differs" % k, inp, impl=res, model=m)
    # event-trigger average: interpreted vs compiled through the API
    ec = eta_cases(ctx)
    cf = os.path.join(WORK, "c15-eta-%d.json" % os.getpid())
    sf = os.path.join(WORK, "c15-eta-%d.py" % os.getpid())
    json.dump(ec, open(cf, "w")); open(sf, "w").write(ETA_SNIPPET)
    run_sub([sf, cf, cf + ".i"], {"NUMBA_DISABLE_JIT": "1"})
    run_sub([sf, cf, cf + ".c"], {"NUMBA_DISABLE_JIT": "0"})
    ri, rc = json.load(open(cf + ".i")), json.load(open(cf + ".c"))
    for p in (cf, sf, cf + ".i", cf + ".c"):
        os.remove(p)
    for c, a, b in zip(ec, ri, rc):
        inp = dict(kernel="_jitperievent_trigger_average", args=c)
        ctx.case(("eta", json.dumps(c, sort_keys=True)))
        if a[0] in ("IndexError", "UnboundLocalError"):
            ctx.fail("oracle", "event_trigger_average interpreted raised %s" % a, inp, impl=a,
                     finding_ctx=dict(kernel="eta", err=a[0]))
        elif a != b:
            ctx.fail("oracle", "event_trigger_average compiled != interpreted", inp, impl=b, expected=a,
                     finding_ctx=dict(kernel="eta", err="mismatch"))


def replay(ctx, rec):
    i = rec["input"]
    if i["kernel"].startswith("_jit"):
        return None      # main re-executes the recorded run
    cf = os.path.join(WORK, "c15-replay.json")
    json.dump([[i["kernel"], i["args"]]], open(cf, "w"))
    run_sub(["-m", "harness.interp", cf, cf + ".o"], {"NUMBA_DISABLE_JIT": "1"})
    r = json.load(open(cf + ".o"))[0]
    print("interpreted:", r)
    try:
        print("compiled:", kernels.call(i["kernel"], i["args"]))
    except Exception as e:
        print("compiled raised", e)
    if ctx.lean:
        print("model:", ctx.lean.run([kernels.line(i["kernel"], i["args"])])[0])
    return r[0] == "ok"

"""C20 — surrogate generators conserve what they promise to conserve."""
import numpy as np
from ..common import enc, dec, ns, ns_arr
from .. import gen
from ..impl import nap, farr, iset, iset_ns

RULE = ("Ts and TsGroup on single-interval supports [a,b] with a in {0, 100 s, -50 s, 3.25 s}, 1..12 timestamps; "
        "(a) real NumPy generator with many seeds: the property's own conservation laws (count, inside support, support kept, "
        "first timestamp and multiset of intervals, k-th timestamp moved by <= max_jitter, keys) as oracle; "
        "(b) np.random.uniform / permutation replaced (harness side) by a recorded lattice-valued generator so that the Lean "
        "model, a deterministic function of the draws, must reproduce the result exactly (Ts: shift, jitter, shuffle, resample; TsGroup with a "
        "member without spikes and a single-spike member: all five generator variants against the group model). distinct = distinct (input, draws)")
PROVED = ("shift_inside (wrapped time in [a,b) for every t, shift, support), shift_count, shift_all_inside (constructor drops "
          "nothing), shift_period, shuffle_first, shuffle_diffs + permute_perm (intervals are a permutation), jitter_count, jitter_order_stat (the k-th sorted jittered timestamp is within max|jitter| of the k-th original one; any length, ties)")
NOT_PROVED = ("the float arithmetic of the new timestamps (bounded by the 2 ns tolerance); for jitter / shuffle on a TsGroup the count of a member whose "
              "new timestamps span no duration is NOT conserved: open finding C20-group-lone-spike (Lean witness regroup_lone_spike_witness)")
EXTRA_MODULES = ["C20Group"]
ASSUMPTIONS = ["draws are inputs of the model; the 1e-9 rounding of new timestamps is bounded (2 ns tolerance), not proved"]


class Draws:
    """replacement for np.random.uniform / permutation producing lattice values and recording them"""

    def __init__(self, rng, q):
        self.rng, self.q, self.log = rng, q, []

    def uniform(self, low=0.0, high=1.0, size=None):
        lo, hi = int(np.ceil(low * 1e9 / self.q)), int(np.floor(high * 1e9 / self.q))
        if hi < lo:
            hi = lo
        if size is None:
            v = self.rng.randint(lo, hi) * self.q
            self.log.append(("u", v)); return v / 1e9
        vs = [self.rng.randint(lo, hi) * self.q for _ in range(int(size))]
        self.log.append(("U", vs)); return np.array(vs) / 1e9

    def permutation(self, x):
        x = np.asarray(x); p = list(range(len(x))); self.rng.shuffle(p)
        self.log.append(("p", p)); return x[p]


def with_draws(d, f):
    ou, op = np.random.uniform, np.random.permutation
    np.random.uniform, np.random.permutation = d.uniform, d.permutation
    try:
        return f()
    finally:
        np.random.uniform, np.random.permutation = ou, op


def mk(ctx):
    a = ctx.rng.choice([0, 100 * 10**9, -50 * 10**9, 3250000000])
    L = ctx.rng.choice([10, 20, 64]) * 10**9
    q = 125000000
    n = ctx.rng.randint(1, 12)
    ts = sorted(a + ctx.rng.randrange(0, L // q) * q for _ in range(n))
    return a, a + L, ts, q


def run(ctx):
    lines, meta = [], []
    N = 250 if ctx.quick else 4000
    for k in range(N):
        a, b, ts, q = mk(ctx)
        sup = nap.IntervalSet(a / 1e9, b / 1e9)
        x = nap.Ts(np.array(ts) / 1e9, time_support=sup)
        seed = ctx.rng.randrange(2**31)
        inp = dict(ts=ts, a=a, b=b, seed=seed)
        ctx.case(("r", tuple(ts), a, b, seed), inp if k % 97 == 0 else None)
        # ---- (a) real generator
        np.random.seed(seed)
        L = b - a
        # admissible shifts are not bounded by the support length (the wrap is a modulo): a third of the cases draw up to 3 L
        Lmax = (3 * L if k % 3 == 0 else L) / 1e9
        # ... nor by sign: every fourth case shifts backwards (negative min / max shift)
        Lmin = -Lmax if k % 4 == 1 else 0.0
        mn, mx = sorted([ctx.rng.uniform(Lmin, Lmax if Lmin == 0.0 else 0.0), ctx.rng.uniform(Lmin, Lmax if Lmin == 0.0 else 0.0)])
        r = nap.shift_timestamps(x, min_shift=mn, max_shift=mx) if k % 2 else nap.shift_timestamps(x)
        if len(r) != len(ts) or iset_ns(r.time_support) != ([a], [b]) or not all(a <= t <= b for t in ns_arr(r.t)):
            ctx.fail("oracle", "shift_timestamps: count / support not conserved", inp, impl=[len(r), ns_arr(r.t)], expected=len(ts))
        r = nap.resample_timestamps(x)
        if len(r) != len(ts) or iset_ns(r.time_support) != ([a], [b]) or not all(a <= t <= b for t in ns_arr(r.t)):
            ctx.fail("oracle", "resample_timestamps: count / support not conserved", inp, impl=[len(r), ns_arr(r.t)])
        if len(ts) >= 2:
            r = nap.shuffle_ts_intervals(x)
            got = ns_arr(r.t)
            d0 = sorted(np.diff(ts)); d1 = sorted(np.diff(got))
            if len(got) != len(ts) or got[0] != ts[0] or any(abs(u - v) > 2 for u, v in zip(d0, d1)):
                ctx.fail("oracle", "shuffle_ts_intervals: first timestamp / multiset of intervals", inp, impl=got)
        mj = ctx.rng.choice([0.25, 1.0, 3.0])
        for keep in (False, True):
            r = nap.jitter_timestamps(x, max_jitter=mj, keep_tsupport=keep)
            got = ns_arr(r.t)
            if not keep:
                if len(got) != len(ts) or any(abs(u - v) > mj * 1e9 + 2 for u, v in zip(sorted(ts), got)):
                    ctx.fail("oracle", "jitter_timestamps: k-th timestamp moved by more than max_jitter / count", inp, impl=got)
            else:
                if iset_ns(r.time_support) != ([a], [b]) or not all(a <= t <= b for t in got):
                    ctx.fail("oracle", "jitter_timestamps(keep_tsupport): support not kept", inp, impl=got)
        # TsGroup member-wise
        if k % 5 == 0:
            g = nap.TsGroup({7: x, 2: nap.Ts(np.array(ts[::2]) / 1e9, time_support=sup)}, time_support=sup)
            for name, fn in (("shift", lambda: nap.shift_timestamps(g, min_shift=mn, max_shift=mx)), ("resample", lambda: nap.resample_timestamps(g))):
                rg = fn()
                if sorted(rg.keys()) != [2, 7] or len(rg[7]) != len(ts) or len(rg[2]) != len(ts[::2]) or iset_ns(rg.time_support) != ([a], [b]):
                    ctx.fail("oracle", "%s_timestamps(TsGroup): keys / counts / support" % name, inp, impl=[list(rg.keys()), len(rg[7]), len(rg[2])])
            if len(set(ts[::2])) >= 2:      # a member whose timestamps span no duration has no support to recompute
                rg = nap.jitter_timestamps(g, max_jitter=mj)
                if sorted(rg.keys()) != [2, 7] or len(rg[7]) != len(ts):
                    ctx.fail("oracle", "jitter_timestamps(TsGroup): keys / counts", inp)
            if len(ts) >= 4:
                rg = nap.shuffle_ts_intervals(g)
                if sorted(rg.keys()) != [2, 7] or ns_arr(rg[7].t)[0] != ts[0] or ns_arr(rg[2].t)[0] != ts[0]:
                    ctx.fail("oracle", "shuffle_ts_intervals(TsGroup): keys / first timestamps", inp)
                elif len(rg[7]) != len(ts) or len(rg[2]) != len(ts[::2]):
                    ctx.fail("oracle", "shuffle_ts_intervals(TsGroup): a member lost timestamps", inp, impl=[len(rg[7]), len(rg[2])])
            # timestamps over a wide dynamic range (hours of recording at ns resolution: one float ulp is of the order of the 1e-9
            # rounding) on the DEFAULT support, which ends on a member's last timestamp: the re-accumulated intervals may land one
            # rounding step beyond it - every member still keeps all its timestamps, its first one and its intervals
            wide = sorted(round(ctx.rng.uniform(0, 1e7), 9) for _ in range(10))
            gw = nap.TsGroup({7: nap.Ts(np.array(wide)), 2: nap.Ts(np.array(wide[::3])), 11: nap.Ts(np.array(wide[1:]))})
            winp = dict(level="group-wide-range", members={7: wide, 2: wide[::3], 11: wide[1:]})
            for rep in range(4):
                ctx.count("group-wide-range:shuffle")
                rg = nap.shuffle_ts_intervals(gw)
                for j in (7, 2, 11):
                    o, r_ = gw[j].t, rg[j].t
                    if len(r_) != len(o) or abs(r_[0] - o[0]) > 1e-9 or (len(o) > 1 and np.max(np.abs(np.sort(np.diff(r_)) - np.sort(np.diff(o)))) > 1e-8):
                        ctx.fail("oracle", "shuffle_ts_intervals(TsGroup, wide time range): member %d count / first timestamp / intervals" % j, winp,
                                 impl=[len(r_), [float(v) for v in r_]], expected=len(o))
                        break
        # TsGroup with a member that has no spike and a member with a single spike after everybody else's last one:
        # every generator once with the real NumPy generator (oracle) and once with recorded lattice draws (oracle + the
        # group-level Lean model `regroup`, PynModel/Process/RandomizeGroup.lean, must reproduce the group exactly)
        if k % 5 == 1 and len(set(ts)) >= 2 and ts[-1] + q < b:
            lone = ts[-1] + q
            mem = {4: [], 7: ts, 9: [lone]}
            mk_g = lambda: nap.TsGroup({j: nap.Ts(np.array(v) / 1e9, time_support=sup) for j, v in mem.items()}, time_support=sup)
            ginp = dict(inp, members=mem)
            kt = "+".join("%d@%s" % (j, enc(mem[j])) for j in (4, 7, 9))
            supp = "%d:%d" % (a, b)
            mjk = min(mj, q / 2e9)
            gens = (("shift_timestamps", lambda g: nap.shift_timestamps(g, min_shift=-(b - a) / 1e9, max_shift=(b - a) / 1e9 * 2), True,
                     lambda log: "gshift %s %d %d %s" % (kt, a, b, enc([v for kind, v in log if kind == "u"]))),
                    ("resample_timestamps", lambda g: nap.resample_timestamps(g), True,
                     lambda log: "gjitter %s %s %s" % ("+".join("%d@%s" % (j, enc([0] * len(mem[j]))) for j in (4, 7, 9)),
                                                       "/".join(enc(v) for kind, v in log if kind == "U"), supp)),
                    ("jitter_timestamps(keep_tsupport=True)", lambda g: nap.jitter_timestamps(g, max_jitter=mjk, keep_tsupport=True), True,
                     lambda log: "gjitter %s %s %s" % (kt, "/".join(enc(v) for kind, v in log if kind == "U"), supp)),
                    ("jitter_timestamps", lambda g: nap.jitter_timestamps(g, max_jitter=mj), False,
                     lambda log: "gjitter %s %s none" % (kt, "/".join(enc(v) for kind, v in log if kind == "U"))),
                    ("shuffle_ts_intervals", lambda g: nap.shuffle_ts_intervals(g), False,
                     lambda log: "gshuffle %s %s" % (kt, "/".join(enc(v) for kind, v in log if kind == "p"))))
            for name, fn, keeps, mline in gens:
                for recorded in (False, True):
                    ctx.count("group-with-empty-and-lone:%s:%s" % (name, "recorded-draws" if recorded else "numpy-generator"))
                    d = Draws(ctx.rng, q)
                    try:
                        rg = with_draws(d, lambda: fn(mk_g())) if recorded else fn(mk_g())
                    except Exception as e:
                        fc = None
                        if recorded and ctx.lean and not keeps and isinstance(e, RuntimeError) and "Union of time supports is empty" in str(e):
                            # lattice-valued recorded draws can make EVERY member a one-instant member (two jittered spikes coincide):
                            # no member has a support, the rebuilt group has none - the open finding's class in its extreme form, when
                            # the group model says the same
                            if ctx.lean.run([mline(d.log)])[0] == "ERR emptyunion":
                                fc = dict(op=name, group=True, member_count=1, member_lost=True, outside_others=True, impl_equals_model=True)
                        ctx.fail("oracle", "%s(TsGroup with a member without spikes) raised %s" % (name, type(e).__name__), ginp, impl=repr(e), finding_ctx=fc)
                        continue
                    got = dict(sup=list(zip(*iset_ns(rg.time_support))), members={int(j): ns_arr(rg[j].t) for j in rg.keys()})
                    eq = None
                    if recorded and ctx.lean:
                        line = mline(d.log)
                        o = ctx.lean.run([line])[0]
                        if "|" in o:
                            ms_ = o.split("|")[1]
                            mod = dict(sup=[tuple(int(v) for v in c.split(":")) for c in o.split("|")[0].split(",")] if o.split("|")[0] != "-" else [],
                                       members={int(c.split("@")[0]): dec(c.split("@")[1]) for c in ms_.split("+")} if ms_ != "-" else {})
                        else:
                            mod = o
                        eq = mod == dict(sup=[tuple(x) for x in got["sup"]], members=got["members"])
                        if not eq:
                            ctx.fail("corr", "%s(TsGroup) != model group on the recorded draws" % name, dict(ginp, line=line), impl=got, model=mod)
                            continue
                    jk = name.startswith("jitter_timestamps(keep")      # with keep_tsupport=True spikes may leave the support: counts are not promised
                    cnt = {j: len(v) for j, v in got["members"].items()}
                    if sorted(cnt) != [4, 7, 9] or cnt[4] != 0 or (cnt[7] > len(ts) if jk else cnt[7] != len(ts)):
                        ctx.fail("oracle", "%s(TsGroup): keys / counts of the empty and the full member" % name, ginp, impl=got)
                    elif keeps and (iset_ns(rg.time_support) != ([a], [b]) or (cnt[9] > 1 if jk else cnt[9] != 1)):
                        ctx.fail("oracle", "%s(TsGroup): support / count of the single-spike member" % name, ginp, impl=got)
                    elif keeps and any(len(rg[j]) and iset_ns(rg[j].time_support) != ([a], [b]) for j in rg.keys()):
                        ctx.fail("oracle", "%s(TsGroup): a member does not carry the kept support (its rate / count grid follow its support)" % name, ginp,
                                 impl={int(j): iset_ns(rg[j].time_support) for j in rg.keys()})
                    elif not keeps and cnt[9] != 1:
                        # the open finding's class: a member whose new timestamps span no duration has no support of its own
                        fctx = dict(op=name, group=True, member_count=1, member_lost=True, impl_equals_model=eq,
                                    outside_others=bool(got["members"][7]) and not (got["sup"] and got["sup"][0][0] <= lone - (mj * 1e9 if name.startswith("jitter") else 0)
                                                                                    and lone + (mj * 1e9 if name.startswith("jitter") else 0) <= got["sup"][-1][1]))
                        ctx.fail("oracle", "%s(TsGroup): the single-spike member lost its spike" % name, ginp, impl=got, finding_ctx=fctx)
        # ---- (b) lattice draws, model must reproduce exactly
        d = Draws(ctx.rng, q)
        r = with_draws(d, lambda: nap.shift_timestamps(x, min_shift=(-(b - a) / 1e9 * 2 if k % 2 else 0.0), max_shift=(b - a) / 1e9 * 2))
        lines.append("shift %s %d %d %d" % (enc(ts), a, b, d.log[-1][1])); meta.append((dict(inp, op="shift", draws=d.log[-1][1]), ns_arr(r.t)))
        if len(r) != len(ts) or iset_ns(r.time_support) != ([a], [b]) or not all(a <= t <= b for t in ns_arr(r.t)):
            ctx.fail("oracle", "shift_timestamps (shift up to twice the support length): count / support not conserved", dict(inp, shift_ns=d.log[-1][1]),
                     impl=[len(r), ns_arr(r.t)], expected=len(ts))
        d = Draws(ctx.rng, q)
        r = with_draws(d, lambda: nap.jitter_timestamps(x, max_jitter=2.0))
        lines.append("jitter %s %s" % (enc(ts), enc(d.log[-1][1]))); meta.append((dict(inp, op="jitter", draws=d.log[-1][1]), ns_arr(r.t)))
        d = Draws(ctx.rng, q)
        r = with_draws(d, lambda: nap.resample_timestamps(x))
        lines.append("snew %s %s %d:%d" % (enc(d.log[-1][1]), enc(list(range(len(ts)))), a, b)); meta.append((dict(inp, op="resample", draws=d.log[-1][1]), ns_arr(r.t)))
        if len(ts) >= 2:
            d = Draws(ctx.rng, q)
            r = with_draws(d, lambda: nap.shuffle_ts_intervals(x))
            lines.append("shuffle %s %s" % (enc(ts), enc(d.log[-1][1]))); meta.append((dict(inp, op="shuffle", draws=d.log[-1][1]), ns_arr(r.t)))
    out = ctx.lean.run(lines) if ctx.lean else None
    if out is not None:
        for (inp, got), o in zip(meta, out):
            if inp["op"] == "resample":
                o = o.split("|")[0]
            if dec(o) != got:
                ctx.fail("corr", "%s_timestamps != model on the recorded draws" % inp["op"], inp, impl=got, model=dec(o))


def replay(ctx, rec):
    print("re-executing the recorded run of `./check C20 quick` with VERIF_SEED=%s; failing input: %s" % (rec.get("seed"), rec.get("input")))
    return None

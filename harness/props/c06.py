"""C06 — value_from and interpolate pick the right neighbour and never cross an epoch."""
from fractions import Fraction
import numpy as np
from ..common import enc, dec_opt, ns, ns_arr
from .. import gen
from ..impl import nap, J, farr, iset, iset_ns

RULE = ("queries: multisets of <=3 timestamps, sources: multisets of <=4 timestamps (duplicates, equidistant neighbours, "
        "queries before the first / after the last source of an interval), IntervalSets with <=3 intervals (intervals "
        "holding queries but no source, exactly one source) on the grid {0..6} shifted below zero every other case, three "
        "modes, Tsd/TsdFrame/TsdTensor sources, int and float data, scales 1us/1ms/1s/2^-9s; interpolate on the same "
        "configurations (sources without duplicates); TsGroup.value_from member-wise. Every case is compared with the "
        "property's definition (set of admissible source samples per query) and, at kernel level, with the Lean model of "
        "jitvaluefrom. distinct = distinct (queries, sources, set, mode)")
PROVED = ("vfT_window: the index chosen for a query is NaN or lies in the source window of the same epoch; other epochs' entries untouched "
          "(all sizes, all modes, all ties); vfT_closest / vfT_after / vfT_before: each mode returns exactly the neighbour the property names (nearest; earliest at-or-after; "
          "latest at-or-before; NaN exactly when the epoch holds none), for sorted queries and samples of any length")
NOT_PROVED = ("_value_from glue (NaN / dtype handling, index mapping through the restricted arrays); the float evaluation of np.interp "
              "(model over exact rationals, compared within 1e-9); duplicate source timestamps in interpolate (np.interp leaves them unspecified)")
EXTRA_MODULES = ["C06Interp"]
ASSUMPTIONS = ["both series sorted, ep canonical"]
MODES = ["before", "closest", "after"]


def admissible(q, src, mode):
    """src: list of (t, tag) of the same interval. returns set of admissible tags (empty set -> NaN expected)"""
    if not src:
        return set()
    if mode == "closest":
        d = min(abs(t - q) for t, _ in src)
        return {tag for t, tag in src if abs(t - q) == d}
    if mode == "before":
        c = [t for t, _ in src if t <= q]
        return {tag for t, tag in src if c and t == max(c)}
    c = [t for t, _ in src if t >= q]
    return {tag for t, tag in src if c and t == min(c)}


def vf_case(ctx, qs, ss, st, en, mode, sc, cls, dtype, lines, meta):
    inp = dict(qs=qs, ss=ss, st=st, en=en, mode=mode, scale_ns=sc, cls=cls, dtype=dtype)
    ctx.case((tuple(qs), tuple(ss), tuple(st), tuple(en), mode), inp if ctx.evaluations % 1201 == 5 else None)
    lo = min(qs + ss + st + [0]) - 1; hi = max(qs + ss + en + [0]) + 1
    full = iset([lo], [hi], sc)
    a = nap.Ts(farr(qs, sc), time_support=full)
    tags = np.arange(len(ss)) + 1
    d = tags.astype(dtype)
    if cls == "Tsd":
        b = nap.Tsd(farr(ss, sc), d, time_support=full)
    elif cls == "TsdFrame":
        b = nap.TsdFrame(farr(ss, sc), np.stack([d, d * 100], axis=1), columns=["p", "q"], time_support=full)
    else:
        b = nap.TsdTensor(farr(ss, sc), np.tile(d[:, None, None], (1, 2, 2)), time_support=full)
    ep = iset(st, en, sc)
    r = a.value_from(b, ep, mode=mode)
    iv = lambda t: next((k for k, (s, e) in enumerate(zip(st, en)) if s <= t <= e), None)
    qin = [q for q in qs if iv(q) is not None]
    if ns_arr(r.t) != [q * sc for q in qin]:
        ctx.fail("oracle", "value_from timestamps are not the queries lying in ep", inp, impl=ns_arr(r.t), expected=[q * sc for q in qin])
        return
    vals = np.asarray(r.values).reshape(len(qin), -1)[:, 0] if len(qin) else []
    for q, v in zip(qin, vals):
        k = iv(q)
        adm = admissible(q, [(t, tag) for t, tag in zip(ss, tags) if iv(t) == k], mode)
        if not adm:
            if not np.isnan(v):
                ctx.fail("oracle", "value_from should be NaN (no admissible source sample in the query's interval)", inp, impl=float(v))
        elif np.isnan(v) or int(v) not in adm:
            ctx.fail("oracle", "value_from picked sample %s, admissible %s (query %d)" % (v, sorted(adm), q), inp, impl=[None if np.isnan(x) else float(x) for x in vals])
    if cls == "TsdFrame" and len(qin):
        w = np.asarray(r.values)
        if list(r.columns) != ["p", "q"] or not np.array_equal(np.nan_to_num(w[:, 1]), np.nan_to_num(w[:, 0] * 100)):
            ctx.fail("oracle", "TsdFrame.value_from rows/columns broken", inp, impl=w.tolist())
    if iset_ns(r.time_support) != iset_ns(ep) and len(qin):
        ctx.fail("oracle", "value_from support != ep", inp, impl=iset_ns(r.time_support))
    # integer data beyond 2**53 (nanosecond clocks, identifiers): when every query finds a neighbour the result keeps the integer
    # dtype and must hold the source values bit for bit
    if cls == "Tsd" and dtype == "int64" and len(ss) and len(qin) and not any(np.isnan(v) for v in vals):
        big = (2**60 + 12345) + np.arange(len(ss), dtype=np.int64) * 3 + 1
        rb = a.value_from(nap.Tsd(farr(ss, sc), big, time_support=full), ep, mode=mode)
        if rb.values.dtype.kind == "i":
            want = [int(big[int(v) - 1]) for v in vals] if all(int(v) in range(1, len(ss) + 1) for v in vals) else None
            if want is not None and [int(x) for x in rb.values] != want and not (mode == "closest"):
                ctx.fail("oracle", "value_from of int64 data beyond 2**53 does not return the source values exactly", dict(inp, data="2**60+12345+3i+1"),
                         impl=[int(x) for x in rb.values], expected=want)
            elif want is not None and mode == "closest" and any(int(x) not in set(int(b_) for b_ in big) for x in rb.values):
                ctx.fail("oracle", "value_from of int64 data beyond 2**53 returns values that are not source values", dict(inp, data="2**60+12345+3i+1"),
                         impl=[int(x) for x in rb.values])
    # kernel-level correspondence, arguments as _value_from computes them
    tie = mode == "closest" and any(abs(t1 - q) == abs(t2 - q) and t1 != t2 and iv(t1) == iv(t2) == iv(q)
                                    for q in qin for t1 in ss for t2 in ss)
    if cls == "Tsd" and tie and sc not in (10**9, 1953125):
        # exactly equidistant neighbours on a non-dyadic lattice: the float distances differ in the last ulp, the
        # integer model does not decide which neighbour wins (either is admissible for the oracle above)
        ctx.skip("float_ambiguous_equidistant_neighbours")
    elif cls == "Tsd":
        qr = qin; sr = [t for t in ss if iv(t) is not None]
        c = [sum(1 for q in qs if s <= q <= e) for s, e in zip(st, en)]
        ct = [sum(1 for t in ss if s <= t <= e) for s, e in zip(st, en)]
        m = MODES.index(mode)
        got = J.jitvaluefrom(farr(qr, sc), farr(sr, sc), np.array(c, dtype=np.int64), np.array(ct, dtype=np.int64), farr(st, sc), m)
        lines.append("valuefrom %s %s %s %s %d %d" % (enc([q * sc for q in qr]), enc([t * sc for t in sr]), enc(c), enc(ct), len(st), m))
        meta.append((inp, [None if np.isnan(v) else int(v) for v in got]))


def interp_case(ctx, qs, ss, st, en, sc):
    ss = sorted(set(ss))
    inp = dict(op="interpolate", qs=qs, ss=ss, st=st, en=en, scale_ns=sc)
    ctx.case(("i", tuple(qs), tuple(ss), tuple(st), tuple(en)))
    lo = min(qs + ss + st + [0]) - 1; hi = max(qs + ss + en + [0]) + 1
    full = iset([lo], [hi], sc)
    a = nap.Ts(farr(qs, sc), time_support=full)
    vals = [(3 * i * i + 1) % 17 for i in range(len(ss))]
    b = nap.Tsd(farr(ss, sc), np.array(vals, dtype=float), time_support=full)
    ep = iset(st, en, sc)
    iv = lambda t: next((k for k, (s, e) in enumerate(zip(st, en)) if s <= t <= e), None)
    for variant in ("ep", "own-default", "own-explicit", "default-supports", "tensor-source"):
        _interp_variant(ctx, inp, variant, a, b, ep, qs, ss, vals, st, en, sc, iv)
    # a source with a STEP: two samples at one instant with different values.  The interpolation passes through both; for a query
    # that is not the duplicated instant itself the neighbours are unambiguous (left: the LAST sample at or before, right: the FIRST after)
    if len(ss) >= 2:
        j = (len(qs) + len(st)) % len(ss)
        ss2 = ss[:j + 1] + [ss[j]] + ss[j + 1:]
        vals2 = vals[:j + 1] + [vals[j] + 20] + vals[j + 1:]
        b2 = nap.Tsd(farr(ss2, sc), np.array(vals2, dtype=float), time_support=b.time_support)
        r = b2.interpolate(a, ep)
        qin = [q for q in qs if iv(q) is not None]
        if ns_arr(r.t) == [q * sc for q in qin]:
            for q, v in zip(qin, r.values):
                if q == ss[j]:
                    continue
                src = [(t, x) for t, x in zip(ss2, vals2) if iv(t) == iv(q)]
                if not src:
                    exp = None
                elif q < src[0][0]:
                    exp = Fraction(src[0][1])
                elif q > src[-1][0]:
                    exp = Fraction(src[-1][1])
                else:
                    jl = max(i for i, (t, _) in enumerate(src) if t <= q)
                    if src[jl][0] == q:
                        exp = Fraction(src[jl][1])
                    else:
                        (t0, x0), (t1, x1) = src[jl], src[jl + 1]
                        exp = Fraction(x0) + Fraction(x1 - x0) * Fraction(q - t0, t1 - t0)
                if (exp is None) != bool(np.isnan(v)) or (exp is not None and abs(float(exp) - v) > 1e-9):
                    ctx.fail("oracle", "interpolate through a step (duplicate source timestamp %d): query %d got %s expected %s" %
                             (ss[j], q, v, None if exp is None else float(exp)), dict(inp, ss=ss2, vals=vals2, variant="duplicates"), impl=[float(x) for x in r.values])
                    break
    # the same call on the Lean model (np.interp over exact rationals, one epoch at a time)
    if ctx.lean:
        o = ctx.lean.run(["interp %s %s %s %s %s" % (enc(sorted(qs)), enc(ss), enc(vals), enc(st), enc(en))])[0]
        r = b.interpolate(a, ep)
        got = [(int(round(t * 1e9 / sc)), None if np.isnan(v) else float(v)) for t, v in zip(r.t, r.values)]
        mod = [] if o == "-" else [(int(c.split(":")[0]), None if c.split(":")[1] == "nan" else float(Fraction(c.split(":")[1]))) for c in o.split(",")]
        same = len(got) == len(mod) and all(g[0] == m[0] and ((g[1] is None) == (m[1] is None)) and (g[1] is None or abs(g[1] - m[1]) <= 1e-9)
                                            for g, m in zip(got, mod))
        if not same:
            ctx.fail("corr", "interpolate != model interpolate (np.interp per epoch, exact rationals)", inp, impl=got, model=mod)


def _interp_variant(ctx, inp, variant, a, b, ep, qs, ss, vals, st, en, sc, iv):
    inp = dict(inp, variant=variant)
    chan = None
    if variant == "ep":
        r = b.interpolate(a, ep)
    elif variant == "default-supports":
        # query and source built WITHOUT a time support (default [first, last]; a one-instant series has none): same samples, same result
        if not qs or not ss:
            return
        r = nap.Tsd(farr(ss, sc), np.array(vals, dtype=float)).interpolate(nap.Ts(farr(qs, sc)), ep)
    elif variant == "tensor-source":
        # a TsdTensor source with distinct channels c1 * v + c0: interpolation is channel-wise (and affine in the data)
        if not ss:
            return
        chan = [(1 + 3 * i + j, i - j) for i in range(2) for j in range(3)]
        d3 = np.stack([np.array(vals, dtype=float) * c1 + c0 for c1, c0 in chan], 1).reshape(len(ss), 2, 3)
        r = nap.TsdTensor(farr(ss, sc), d3, time_support=b.time_support).interpolate(a, ep)
        if r.values.shape[1:] != (2, 3):
            ctx.fail("oracle", "interpolate of a (n,2,3) tensor: shape", inp, impl=list(r.values.shape)); return
    else:
        # the source lives ON the multi-interval support; ep omitted, or passed as the very same object
        keep = [i for i, t in enumerate(ss) if iv(t) is not None]
        if not keep:
            return
        ss = [ss[i] for i in keep]; vals = [vals[i] for i in keep]
        b2 = nap.Tsd(farr(ss, sc), np.array(vals, dtype=float), time_support=ep)
        r = b2.interpolate(a) if variant == "own-default" else b2.interpolate(a, b2.time_support)
    qin = [q for q in qs if iv(q) is not None]
    if ns_arr(r.t) != [q * sc for q in qin]:
        ctx.fail("oracle", "interpolate timestamps", inp, impl=ns_arr(r.t), expected=[q * sc for q in qin]); return
    rows = r.values if chan is None else r.values.reshape(len(r.values), 6)
    for q, v in zip(qin, rows):
        src = [(t, x) for t, x in zip(ss, vals) if iv(t) == iv(q)]
        if not src:
            exp = None
        elif q <= src[0][0]:
            exp = Fraction(src[0][1])
        elif q >= src[-1][0]:
            exp = Fraction(src[-1][1])
        else:
            j = max(i for i, (t, _) in enumerate(src) if t <= q)
            (t0, x0), (t1, x1) = src[j], src[j + 1]
            exp = Fraction(x0) + Fraction(x1 - x0) * Fraction(q - t0, t1 - t0)
        if chan is not None:
            for (c1, c0), vv in zip(chan, v):
                if (exp is None) != bool(np.isnan(vv)) or (exp is not None and abs(float(exp) * c1 + c0 - vv) > 1e-9):
                    ctx.fail("oracle", "interpolate of a tensor source, channel %s at query %d: got %s expected %s" %
                             ((c1, c0), q, vv, None if exp is None else float(exp) * c1 + c0), inp, impl=[float(x) for x in v]); break
            continue
        if exp is None:
            if not np.isnan(v):
                ctx.fail("oracle", "interpolate should be NaN (interval holds no source sample)", inp, impl=float(v))
        elif np.isnan(v) or abs(float(exp) - v) > 1e-9:
            ctx.fail("oracle", "interpolate value at query %d: got %s expected %s" % (q, v, float(exp)), inp, impl=[float(x) for x in r.values])


def group_case(ctx, sc):
    st, en = gen.rand_canonical(ctx.rng, 3, 12)
    ss = gen.rand_sorted(ctx.rng, 6, 12, dup=0.0); ss = sorted(set(ss))
    mem = {k: gen.rand_sorted(ctx.rng, 5, 12) for k in (4, 1, 9)}
    inp = dict(op="group", st=st, en=en, ss=ss, members=mem, scale_ns=sc)
    ctx.case(("g", repr(inp)))
    full = iset([-1], [13], sc)
    b = nap.Tsd(farr(ss, sc), np.arange(len(ss)) + 1.0, time_support=full)
    g = nap.TsGroup({k: nap.Ts(farr(v, sc), time_support=full) for k, v in mem.items()}, time_support=full)
    ep = iset(st, en, sc)
    groups = [("explicit wide support", g)]
    try:
        # the group on its DEFAULT support (first to last spike): narrower than ep and than the source's support
        groups.append(("default support", nap.TsGroup({k: nap.Ts(farr(v, sc)) for k, v in mem.items() if len(set(v)) >= 2})))
    except Exception:
        pass
    for gname, gg in groups:
        for mode in MODES:
            r = gg.value_from(b, ep, mode=mode)
            for k in gg.keys():
                m = gg[k].value_from(b, ep, mode=mode)
                if ns_arr(r[k].t) != ns_arr(m.t) or not np.array_equal(np.nan_to_num(r[k].values, nan=-1), np.nan_to_num(m.values, nan=-1)):
                    ctx.fail("oracle", "TsGroup.value_from (%s, %s) member %d != member-wise result" % (gname, mode, k), dict(inp, group=gname, mode=mode),
                             impl=[float(x) for x in np.nan_to_num(r[k].values, nan=-1)], expected=[float(x) for x in np.nan_to_num(m.values, nan=-1)])


def run(ctx):
    G = 6
    sets = gen.canonical_sets(G, 3)
    qss = gen.multisets(G, 3, 1)
    sss = gen.multisets(G, 4)
    lines, meta = [], []
    n = 4000 if ctx.quick else 60000
    for k in range(n):
        qs = list(ctx.rng.choice(qss)); ss = list(ctx.rng.choice(sss)); st, en = map(list, ctx.rng.choice(sets))
        if k % 2:
            qs = [v - 4 for v in qs]; ss = [v - 4 for v in ss]; st = [v - 4 for v in st]; en = [v - 4 for v in en]
        sc = [1000, 10**6, 10**9, 1953125][k % 4]
        vf_case(ctx, qs, ss, st, en, MODES[k % 3], sc, ["Tsd", "Tsd", "TsdFrame", "TsdTensor"][(k // 3) % 4],
                ["float64", "int64"][(k // 12) % 2], lines, meta)
        if k % 4 == 0:
            interp_case(ctx, qs, ss, st, en, sc)
    for k in range(40 if ctx.quick else 400):
        group_case(ctx, ctx.rng.choice([1000, 10**9]))
    out = ctx.lean.run(lines) if ctx.lean else None
    if out is not None:
        for (inp, got), o in zip(meta, out):
            m = dec_opt(o) if not o.startswith("ERR") else o
            if m != got:
                ctx.fail("corr", "jitvaluefrom != model", inp, impl=got, model=m)


def replay(ctx, rec):
    n0 = len(ctx.failures); i = rec["input"]
    if i.get("op") == "interpolate":
        interp_case(ctx, i["qs"], i["ss"], i["st"], i["en"], i["scale_ns"])
    elif "mode" in i:
        vf_case(ctx, i["qs"], i["ss"], i["st"], i["en"], i["mode"], i["scale_ns"], i["cls"], i["dtype"], [], [])
    else:
        return None      # main re-executes the recorded run
    for f in ctx.failures[n0:]:
        print(f["kind"], f["what"], "impl=", f["impl"])
    return len(ctx.failures) == n0

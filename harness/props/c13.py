"""C13 — metadata and labels stay attached to the element they describe (tagged data + model)."""
import numpy as np
import pandas as pd
from ..common import enc, ns, ns_arr
from .. import gen
from ..impl import nap, farr, iset, iset_ns
from .c04 import encp

RULE = ("IntervalSet: sets of 1..5 intervals whose metadata rows are recoverable from the data (tag = f(start)), two columns (numeric + "
        "string); every index expression valid for the class (int, negative int, slices with steps, reordering / repeating lists and "
        "arrays, boolean masks, boolean pd.Series built from metadata, (key, :) tuples), all pairs for intersect / set_diff (columns of "
        "both operands), split with sizes <, =, > the epochs, union / merge_close_intervals / time_span / unsorted and repaired input "
        "(must drop); result (intervals, rows | none) == Lean model AND containment oracle: every result interval's row is the row of "
        "the source interval(s) containing it; monotone selections must KEEP metadata.  TsdFrame: integer (unsorted, non-contiguous) "
        "and string column labels, tags embedded in the column data; positional, mask, label, loc, metadata-Series column selection, row "
        "selection, restrict, get, arithmetic, numpy functions, groupby.  TsGroup: tags embedded in the first spike; key lists, masks, "
        "getby_*, restrict, get, merge (interleaved keys), metadata-Series selection.  distinct = distinct (object, expression)")
PROVED = ("new_rows_faithful (constructor keeps metadata only when it emitted every pair in place), getIdx_rows, intersect_rows, diff_rows, split_rows (each piece of ep.split(size) lies inside the interval whose row it carries), union_drops, "
          "fixLoopW_fst/_unchanged, loc_sound, iloc_sound, loc_eq_iloc (loc = iloc on the 0..n-1 index), reset_index")
NOT_PROVED = ("split parents (model correspondence + containment oracle), TsdFrame column / TsGroup member metadata (tagged-data "
              "oracle; the model part is loc_sound), save/load of metadata (C11)")
ASSUMPTIONS = ["metadata rows are opaque: the model carries one tag list per element"]
SC = 10**9


EXTRA_MODULES = ["C13GroupBy"]


def rows_of(ep, cols):
    """metadata rows of a real IntervalSet as tuples over `cols`; None when it has none of them"""
    have = [c for c in cols if c in ep.metadata_columns]
    if not have:
        return None
    return [tuple(ep.metadata[c].values[i] for c in have) for i in range(len(ep))], have


def mk_iset(st, en, prefix="tag"):
    tags = [100 + s for s in st]
    md = {prefix: np.array(tags), prefix + "_lab": np.array(["L%d" % t for t in tags], dtype=object)}
    return iset(st, en, SC, metadata=md), tags


def model_rows(s):
    return None if s == "none" else ([] if s == "-" else [tuple(int(v) for v in r.split(".")) if r != "e" else () for r in s.split(",")])


def parse_t(o):
    if o.startswith("ERR") or o in ("bad-op",):
        return o
    p, r = o.split("|")
    pairs = [] if p == "-" else [tuple(int(v) for v in x.split(":")) for x in p.split(",")]
    return pairs, model_rows(r)


def impl_t(ep, cols):
    st, en = iset_ns(ep)
    r = rows_of(ep, cols)
    rows = None
    if r is not None:
        rows = [tuple(int(v) for v in row if not isinstance(v, str)) for row in r[0]]
    return list(zip(st, en)), rows


def contain_oracle(ctx, what, res, sources, inp):
    """sources: list of (st, en, {col: values}) ; every result interval must carry, for every column it has, the value of the
    source interval that contains it"""
    rs, re = iset_ns(res)
    for j, (a, b) in enumerate(zip(rs, re)):
        for (st, en, cols) in sources:
            par = [i for i, (s, e) in enumerate(zip(st, en)) if s * SC <= a and b <= e * SC]
            for c, vals in cols.items():
                if c in res.metadata_columns:
                    got = res.metadata[c].values[j]
                    if len(par) != 1 or got != vals[par[0]]:
                        ctx.fail("oracle", "%s: interval %d [%d,%d] carries %s=%r, parent %s has %r" % (
                            what, j, a, b, c, got, par, [vals[i] for i in par]), inp)
                        return


def iset_indexing(ctx, n_cases):
    rng = ctx.rng
    lines, metas = [], []
    for k in range(n_cases):
        st, en = gen.rand_canonical(rng, 5, 30)
        if not st:
            continue
        A, tags = mk_iset(st, en)
        n = len(st)
        src = [(st, en, {"tag": tags, "tag_lab": ["L%d" % t for t in tags]})]
        keys = []
        keys.append(("int", rng.randrange(-n, n)))
        a, b = rng.randint(-n - 1, n + 1), rng.randint(-n - 1, n + 1)
        keys.append(("slice", slice(a, b, rng.choice([None, 1, 2, -1]))))
        L = [rng.randrange(-n, n) for _ in range(rng.randint(1, n))]
        keys.append(("list", L)); keys.append(("sorted-list", sorted(set(x % n for x in L))))
        keys.append(("array", np.array(sorted(set(x % n for x in L)))))
        m = np.array([rng.random() < 0.6 for _ in range(n)])
        keys.append(("mask", m))
        thr = rng.choice(tags)
        keys.append(("series", "tag>%d" % thr))
        keys.append(("series-reordered", "tag>%d" % thr))      # the same boolean Series with its index in another order (sort_values)
        keys.append(("tuple", (slice(a, b), slice(None))))
        keys.append(("tuple-int", (rng.randrange(n), slice(None))))
        for kind, key in keys:
            inp = dict(level="iset-index", st=st, en=en, kind=kind, key=repr(key))
            ctx.case(("ii", tuple(st), tuple(en), kind, repr(key)), inp if k % 53 == 0 and kind == "list" else None)
            ctx.count("iset_index:" + kind)
            real_key = (A.tag > thr) if kind == "series" else (A.tag.sort_values(ascending=False) > thr) if kind == "series-reordered" else key
            # positions the key denotes
            if kind in ("int",):
                pos = [key % n]
            elif kind == "slice":
                pos = list(range(*key.indices(n)))
            elif kind in ("list", "sorted-list", "array"):
                pos = [int(x) % n for x in key]
            elif kind == "mask":
                pos = [int(i) for i in np.nonzero(key)[0]]
            elif kind in ("series", "series-reordered"):
                pos = [i for i, t in enumerate(tags) if t > thr]
            elif kind == "tuple":
                pos = list(range(*key[0].indices(n)))
            else:
                pos = [key[0]]
            try:
                R = A[real_key]
            except Exception as e:
                got = "ERR " + type(e).__name__
                R = None
            if R is not None:
                contain_oracle(ctx, "A[%s]" % kind, R, src, inp)
                increasing = all(pos[i] < pos[i + 1] for i in range(len(pos) - 1))
                if increasing and len(pos) and len(R) == len(pos) and "tag" not in R.metadata_columns:
                    ctx.fail("oracle", "order-preserving selection lost its metadata", inp, impl=impl_t(R, ["tag"]))
                got = impl_t(R, ["tag"])
            lines.append("tget %s %s %s" % (encp([(s * SC, e * SC) for s, e in zip(st, en)]), ",".join(str(t) for t in tags), enc(pos)))
            metas.append((inp, got))
    out = ctx.lean.run(lines) if ctx.lean else None
    if out is not None:
        for (inp, got), o in zip(metas, out):
            m = parse_t(o)
            if isinstance(got, str):
                ctx.count("iset_index_raised")   # e.g. empty selection: both sides must then be degenerate
                if not (isinstance(m, str) or m[0] == []):
                    ctx.fail("corr", "implementation raised %s, model returned a set" % got, inp, model=m)
            elif got != m:
                ctx.fail("corr", "IntervalSet indexing != model", inp, impl=got, model=m)


def iset_construct(ctx, n_cases):
    rng = ctx.rng
    lines, metas = [], []
    for k in range(n_cases):
        n = rng.randint(1, 5)
        st = [rng.randrange(0, 20) for _ in range(n)]
        en = [s + rng.randrange(0, 6) - (1 if rng.random() < 0.1 else 0) for s in st]
        if rng.random() < 0.6:
            order = sorted(range(n), key=lambda i: st[i]); st = [st[i] for i in order]; en = [en[i] for i in order]
        tags = [100 + i for i in range(n)]
        inp = dict(level="iset-construct", st=st, en=en)
        ctx.case(("ic", tuple(st), tuple(en)), inp if k % 97 == 0 else None)
        try:
            R = nap.IntervalSet(start=farr(st, SC), end=farr(en, SC), metadata={"tag": np.array(tags)})
        except Exception as e:
            ctx.count("construct_raised:" + type(e).__name__); continue
        got = impl_t(R, ["tag"])
        if got[1] is not None:
            # kept metadata: every interval must be the input pair its row was given with
            for (a, b), (t,) in zip(*got):
                i = t - 100
                if not (a == st[i] * SC and b in (en[i] * SC, en[i] * SC - 1000)):
                    ctx.fail("oracle", "constructor attached row %d to interval [%d,%d]" % (i, a, b), inp, impl=got)
        lines.append("tnew %s %s %s" % (enc([s * SC for s in st]), enc([e * SC for e in en]), ",".join(str(t) for t in tags)))
        metas.append((inp, got))
    out = ctx.lean.run(lines) if ctx.lean else None
    if out is not None:
        for (inp, got), o in zip(metas, out):
            if got != parse_t(o):
                ctx.fail("corr", "IntervalSet(metadata=...) != model", inp, impl=got, model=parse_t(o))


def iset_setops(ctx, n_cases):
    rng = ctx.rng
    lines, metas = [], []
    for k in range(n_cases):
        st, en = gen.rand_canonical(rng, 4, 30)
        s2, e2 = gen.rand_canonical(rng, 4, 30)
        if not st or not s2:
            continue
        A, ta = mk_iset(st, en, "tag")
        B, tb = mk_iset(s2, e2, "btag")
        srcA = (st, en, {"tag": ta, "tag_lab": ["L%d" % t for t in ta]})
        srcB = (s2, e2, {"btag": tb, "btag_lab": ["L%d" % t for t in tb]})
        inp = dict(level="iset-setop", A=[st, en], B=[s2, e2])
        ctx.case(("is", tuple(st), tuple(en), tuple(s2), tuple(e2)), inp if k % 101 == 0 else None)
        pa, pb = encp([(s * SC, e * SC) for s, e in zip(st, en)]), encp([(s * SC, e * SC) for s, e in zip(s2, e2)])
        ra, rb = ",".join(map(str, ta)), ",".join(map(str, tb))
        I = A.intersect(B)
        contain_oracle(ctx, "intersect", I, [srcA, srcB], inp)
        if len(I) and not ({"tag", "btag"} <= set(I.metadata_columns)):
            ctx.fail("oracle", "intersect lost metadata columns", inp, impl=I.metadata_columns)
        lines.append("tint %s %s %s %s" % (pa, ra, pb, rb)); metas.append((dict(inp, op="intersect"), impl_t(I, ["tag", "btag"])))
        D = A.set_diff(B)
        contain_oracle(ctx, "set_diff", D, [srcA], inp)
        if len(D) and "tag" not in D.metadata_columns:
            ctx.fail("oracle", "set_diff lost metadata", inp)
        lines.append("tdiff %s %s %s none" % (pa, ra, pb)); metas.append((dict(inp, op="set_diff"), impl_t(D, ["tag"])))
        size = rng.choice([1, 2, 3, 5])
        S = A.split(float(size))
        contain_oracle(ctx, "split(%d)" % size, S, [srcA], dict(inp, size=size))
        if len(S) and "tag" not in S.metadata_columns:
            ctx.fail("oracle", "split lost metadata", dict(inp, size=size))
        lines.append("tsplit %s %s %d" % (pa, ra, size * SC)); metas.append((dict(inp, op="split", size=size), impl_t(S, ["tag"])))
        # the dropping operations
        for name, R in (("union", A.union(B)), ("merge_close_intervals", A.merge_close_intervals(2.0)), ("time_span", A.time_span())):
            if len(R.metadata_columns):
                # allowed only if still right
                contain_oracle(ctx, name, R, [srcA], inp)
                ctx.fail("oracle", "%s kept metadata columns %s" % (name, R.metadata_columns), inp)
        # overlapping column names are dropped from both sides
        B2 = iset(s2, e2, SC, metadata={"tag": np.array(tb)})
        I2 = A.intersect(B2)
        if "tag" in I2.metadata_columns:
            ctx.fail("oracle", "intersect kept an ambiguous (overlapping) column", inp)
        for nm, R in (("drop_short_intervals", A.drop_short_intervals(2.0)), ("drop_long_intervals", A.drop_long_intervals(4.0))):
            contain_oracle(ctx, nm, R, [srcA], inp)
            if len(R) and "tag" not in R.metadata_columns:
                ctx.fail("oracle", nm + " lost metadata", inp)
    out = ctx.lean.run(lines) if ctx.lean else None
    if out is not None:
        for (inp, got), o in zip(metas, out):
            m = parse_t(o)
            if got[0] == [] and not isinstance(m, str) and m[0] == []:
                continue
            if got != m:
                ctx.fail("corr", "%s != model" % inp["op"], inp, impl=got, model=m)


def frame_cases(ctx, n_cases):
    rng = ctx.rng
    for k in range(n_cases):
        ncol = rng.randint(1, 5)
        strings = (k % 2 == 0)
        labels = rng.sample(range(1, 40), ncol)
        labs = ["c%d" % l for l in labels] if strings else labels
        tags = [rng.randrange(1, 90) for _ in range(ncol)]
        while len(set(tags)) < ncol:
            tags = [rng.randrange(1, 90) for _ in range(ncol)]
        nrow = rng.randint(2, 6)
        t = sorted(rng.sample(range(0, 30), nrow))
        d = np.array([[1000 * tg + r for tg in tags] for r in range(nrow)], dtype=float)
        F = nap.TsdFrame(farr(t, SC), d, columns=labs, time_support=iset([-1], [31], SC),
                         metadata={"tag": np.array(tags), "lab": np.array(["L%d" % x for x in tags], dtype=object)})
        by_tag = {tg: lb for tg, lb in zip(tags, labs)}
        inp = dict(level="frame", labels=labs, tags=tags, t=t)

        def check(what, R):
            ctx.case(("f", tuple(labs), tuple(tags), what))
            ctx.count("frame:" + what.split("(")[0])
            if not isinstance(R, nap.TsdFrame):
                return
            if len(R) == 0:
                return
            for j, lab in enumerate(R.columns):
                v = np.asarray(R.values)[0, j]
                tg = int(abs(v) // 1000) if abs(v) >= 1000 else None
                if tg is None or tg not in by_tag:
                    continue          # values transformed beyond recognition
                if by_tag[tg] != lab:
                    ctx.fail("oracle", "%s: column holding tag %d is labelled %r, was %r" % (what, tg, lab, by_tag[tg]), dict(inp, expr=what))
                if "tag" in R.metadata_columns:
                    mt = R.metadata["tag"].values[j]; ml = R.metadata["lab"].values[j]
                    if mt != tg or ml != "L%d" % tg:
                        ctx.fail("oracle", "%s: column with data tag %d carries metadata tag=%r lab=%r" % (what, tg, mt, ml), dict(inp, expr=what))
                else:
                    ctx.fail("oracle", "%s: metadata dropped from a TsdFrame result with the same columns" % what, dict(inp, expr=what))
        pos = [rng.randrange(ncol) for _ in range(rng.randint(1, ncol))]
        upos = sorted(set(pos))
        mask = np.array([rng.random() < 0.6 for _ in range(ncol)])
        sel_labels = [labs[i] for i in pos]
        exprs = [
            ("F[:, list]", lambda: F[:, pos]), ("F[:, sorted]", lambda: F[:, upos]), ("F[:, mask]", lambda: F[:, mask]),
            ("F[:, slice]", lambda: F[:, slice(rng.randrange(ncol), None)]), ("F[:, int]", lambda: F[:, [pos[0]]]),
            ("F.loc[list]", lambda: F.loc[sel_labels]), ("F.loc[label]", lambda: F.loc[[sel_labels[0]]]),
            ("F[rows]", lambda: F[1:]), ("F[rowmask]", lambda: F[np.arange(nrow) % 2 == 0]),
            ("F[rows, list]", lambda: F[1:, pos]),
            ("restrict", lambda: F.restrict(iset([t[0]], [t[-1]], SC))), ("get", lambda: F.get(float(t[0]), float(t[-1]))),
            ("F*1", lambda: F * 1), ("np.abs", lambda: np.abs(F)), ("F+0.25", lambda: F + 0.25), ("-F", lambda: -F),
            ("F[meta series]", lambda: F[F.tag > sorted(tags)[len(tags) // 2 - 1]] if ncol > 1 else F),
            ("bin_average", lambda: F.bin_average(40.0)), ("interpolate", lambda: F.interpolate(nap.Ts(farr(t, SC)))),
            ("convolve", lambda: F.convolve(np.array([1.0]))), ("dropna", lambda: F.dropna()),
            ("value_from", lambda: nap.Ts(farr(t, SC)).value_from(F)),
        ]
        if strings:
            exprs += [("F[label]", lambda: F[[sel_labels[0]]]), ("F[labels]", lambda: F[sel_labels])]
        for what, fn in exprs:
            try:
                R = fn()
            except Exception as e:
                ctx.count("frame_raised:%s:%s" % (what, type(e).__name__)); continue
            check(what, R)


def group_cases(ctx, n_cases):
    rng = ctx.rng
    for k in range(n_cases):
        n = rng.randint(1, 5)
        keys = rng.sample(range(0, 40), n)
        tags = rng.sample(range(1, 25), n)
        full = iset([0], [60], SC)
        data = {kk: nap.Ts(farr(sorted([tg] + rng.sample(range(26, 50), rng.randint(0, 3))), SC)) for kk, tg in zip(keys, tags)}
        order = sorted(range(n), key=lambda i: keys[i])
        # metadata passed as a DataFrame indexed by key (order-independent) or by key-ordered arrays
        md = pd.DataFrame({"tag": [tags[i] for i in order], "lab": ["L%d" % tags[i] for i in order]}, index=[keys[i] for i in order])
        G = nap.TsGroup(data, time_support=full, metadata=md)
        inp = dict(level="group", keys=keys, tags=tags)

        def check(what, R, remap=None):
            ctx.case(("g", tuple(keys), tuple(tags), what))
            ctx.count("group:" + what.split("(")[0])
            for key in R.keys():
                m = R[key]
                if len(m) == 0:
                    continue
                tg = ns(m.t[0]) // SC
                if tg not in tags:
                    continue
                if remap is None and key != keys[tags.index(tg)]:
                    ctx.fail("oracle", "%s: member with first spike %d sits under key %s" % (what, tg, key), dict(inp, expr=what))
                if "tag" not in R.metadata_columns:
                    ctx.fail("oracle", "%s: metadata dropped" % what, dict(inp, expr=what)); return
                mt = R.metadata["tag"][key]; ml = R.metadata["lab"][key]
                if mt != tg or ml != "L%d" % tg:
                    ctx.fail("oracle", "%s: member with data tag %d carries metadata tag=%r lab=%r" % (what, tg, mt, ml), dict(inp, expr=what))
        check("constructor", G)
        ks = sorted(keys)
        sel = rng.sample(ks, rng.randint(1, n))
        mask = np.array([rng.random() < 0.6 for _ in ks])
        other_keys = rng.sample([x for x in range(0, 40) if x not in keys], rng.randint(1, 3))
        other_tags = rng.sample([x for x in range(1, 25) if x not in tags], len(other_keys))
        H = nap.TsGroup({kk: nap.Ts(farr([tg, 55], SC)) for kk, tg in zip(other_keys, other_tags)}, time_support=full,
                        metadata=pd.DataFrame({"tag": [other_tags[i] for i in np.argsort(other_keys)],
                                               "lab": ["L%d" % other_tags[i] for i in np.argsort(other_keys)]}, index=sorted(other_keys)))
        alltags = tags + other_tags; allkeys = keys + other_keys
        exprs = [
            ("G[list]", lambda: G[sel]), ("G[mask]", lambda: G[mask]), ("G[series]", lambda: G[G.tag >= sorted(tags)[len(tags) // 2]]),
            ("getby_threshold", lambda: G.getby_threshold("tag", sorted(tags)[len(tags) // 2], ">=")),
            ("getby_category", lambda: list(G.getby_category("lab").values())[0]),
            ("restrict", lambda: G.restrict(iset([0], [52], SC))), ("get", lambda: G.get(0.0, 30.0)),
            ("G[list][list]", lambda: G[sel][sorted(sel)[:1]]),
        ]
        for what, fn in exprs:
            try:
                R = fn()
            except Exception as e:
                ctx.count("group_raised:%s:%s" % (what, type(e).__name__)); continue
            check(what, R)
        # merge: interleaved keys, metadata must follow its member
        try:
            M = G.merge(H)
            tags2, keys2 = alltags, allkeys
            for key in M.keys():
                tg = ns(M[key].t[0]) // SC
                if tg in tags2:
                    if key != keys2[tags2.index(tg)] or M.metadata["tag"][key] != tg or M.metadata["lab"][key] != "L%d" % tg:
                        ctx.fail("oracle", "merge: member with data tag %d under key %s carries tag=%r" % (tg, key, M.metadata["tag"][key]),
                                 dict(inp, other_keys=other_keys, other_tags=other_tags))
            ctx.case(("g", tuple(keys), tuple(other_keys), "merge")); ctx.count("group:merge")
            M2 = G.merge(H, reset_index=True)
            for key in M2.keys():
                tg = ns(M2[key].t[0]) // SC
                if tg in tags2 and (M2.metadata["tag"][key] != tg):
                    ctx.fail("oracle", "merge(reset_index): member with data tag %d carries tag=%r" % (tg, M2.metadata["tag"][key]),
                             dict(inp, other_keys=other_keys, other_tags=other_tags))
            # the same group built with bypass_check=True (the caller vouches for the members; keys given in arbitrary order): its
            # members, keys and metadata rows still go together, also after a renumbering merge in either position
            Gb = nap.TsGroup(data, time_support=full, metadata=md, bypass_check=True)
            check("constructor(bypass_check)", Gb)
            vals_ = list(Gb.values()); idx_ = [int(x) for x in Gb.index]
            for pos, key in enumerate(idx_):
                if ns_arr(vals_[pos].t) != ns_arr(Gb[key].t):
                    ctx.fail("oracle", "bypass_check group: values()[%d] is not the member of index[%d] = %d" % (pos, pos, key), dict(inp, expr="values()"))
                    break
            for what, Mb in (("Gb.merge(H, reset_index)", Gb.merge(H, reset_index=True)), ("H.merge(Gb, reset_index)", H.merge(Gb, reset_index=True))):
                ctx.count("group:merge(bypass)")
                for key in Mb.keys():
                    if len(Mb[key]) == 0:
                        continue
                    tg = ns(Mb[key].t[0]) // SC
                    if tg in tags2 and (Mb.metadata["tag"][key] != tg):
                        ctx.fail("oracle", "%s: member with data tag %d carries tag=%r" % (what, tg, Mb.metadata["tag"][key]),
                                 dict(inp, other_keys=other_keys, other_tags=other_tags, expr=what))
        except Exception as e:
            ctx.fail("oracle", "merge raised %r" % (e,), dict(inp, other_keys=other_keys))


def groupby_cases(ctx, n_cases):
    """groupby / get_group / groupby_apply on the three metadata carriers, each inside a short HISTORY: the grouped column is
    overwritten (set_info, item assignment, attribute assignment) between calls, a second column is grouped jointly - the groups
    are those of the metadata the object carries NOW, and the elements returned for a group are the ones tagged with it."""
    rng = ctx.rng
    lines, metas = [], []
    for k in range(n_cases):
        n = rng.randint(2, 6)
        kind = ("iset", "frame", "group")[k % 3]
        tags = rng.sample(range(1, 25), n)
        if kind == "iset":
            st = sorted(rng.sample(range(0, 60, 2), n)); en = [x + 1 for x in st]
            obj = iset(st, en, SC, metadata={"tag": np.array(tags)})
            elem_tags = lambda R: [int(x) for x in R.metadata["tag"].values] if "tag" in R.metadata_columns else None
            data_tags = lambda R: [tags[st.index(ns(x) // SC)] for x in R.start]
            ids = list(range(n))
        elif kind == "frame":
            labs = rng.sample(range(1, 40), n) if k % 2 else ["c%d" % x for x in rng.sample(range(1, 40), n)]
            obj = nap.TsdFrame(farr([0, 1, 2], SC), np.array([[1000.0 * tg + r for tg in tags] for r in range(3)]), columns=labs,
                               metadata={"tag": np.array(tags)})
            elem_tags = lambda R: [int(x) for x in R.metadata["tag"].values] if "tag" in R.metadata_columns else None
            data_tags = lambda R: [int(v // 1000) for v in np.asarray(R.values)[0]]
            ids = list(range(n))          # groupby returns column POSITIONS for a TsdFrame
        else:
            keys = sorted(rng.sample(range(0, 40), n))
            obj = nap.TsGroup({kk: nap.Ts(farr([tg, 50 + j], SC)) for j, (kk, tg) in enumerate(zip(keys, tags))}, time_support=iset([0], [60], SC),
                              metadata=pd.DataFrame({"tag": tags}, index=keys))
            elem_tags = lambda R: [int(R.metadata["tag"][kk]) for kk in R.keys()] if "tag" in R.metadata_columns else None
            data_tags = lambda R: [ns(R[kk].t[0]) // SC for kk in R.keys()]
            ids = keys
        inp = dict(level="groupby", kind=kind, tags=tags, ids=[str(x) for x in ids], variant=k)
        cond = None
        for step in range(4):
            new = [rng.choice("abc") for _ in range(n)]
            how = ("set_info", "setitem", "setattr")[(k + step) % 3]
            try:
                if how == "set_info" or (step == 0 and kind != "iset" and False):
                    obj.set_info(cond=np.array(new, dtype=object))
                elif how == "setitem":
                    obj["cond"] = np.array(new, dtype=object)
                else:
                    obj.cond = np.array(new, dtype=object)
            except Exception as e:
                ctx.count("groupby_set_raised:%s:%s" % (how, type(e).__name__))
                try:
                    obj.set_info(cond=np.array(new, dtype=object))
                except Exception as e2:
                    ctx.fail("oracle", "set_info(cond=...) raised %r" % (e2,), dict(inp, step=step)); break
            cond = new
            if step == 2:
                c2 = [rng.choice([1, 2]) for _ in range(n)]
                obj.set_info(second=np.array(c2))
            ctx.case(("gb", kind, tuple(tags), tuple(cond), step)); ctx.count("groupby:%s:%s" % (kind, how))
            rec = dict(inp, step=step, how=how, cond=cond)
            try:
                G = obj.groupby("cond")
            except Exception as e:
                ctx.fail("oracle", "groupby raised %r" % (e,), rec); break
            want = {v: [ids[i] for i in range(n) if cond[i] == v] for v in sorted(set(cond))}
            got = {str(v): [x if isinstance(x, str) else int(x) for x in list(ix)] for v, ix in G.items()}
            if got != want:
                ctx.fail("oracle", "groupby('cond') is not the grouping of the metadata the object carries now", rec, impl=got, expected=want)
            # the same call through the Lean model (`groupBy`, PynModel/Core/GroupBy.lean): categories coded a,b,c -> 0,1,2; positions -> ids
            code = ["abc".index(x) for x in cond]
            lines.append("groupby %s" % enc(code)); metas.append((rec, "groupby", None, got, ids))
            for v in want:
                try:
                    R = obj.groupby("cond", get_group=v)
                except Exception as e:
                    ctx.fail("oracle", "groupby(get_group=%r) raised %r" % (v, e), rec); continue
                wt = [tags[i] for i in range(n) if cond[i] == v]
                lines.append("getgroup %s %s %d" % (enc(tags), enc(["abc".index(x) for x in cond]), "abc".index(v)))
                metas.append((dict(rec, get_group=v), "getgroup", None, data_tags(R), ids))
                if data_tags(R) != wt or elem_tags(R) != wt or list(R.metadata["cond"].values) != [v] * len(wt):
                    ctx.fail("oracle", "groupby(get_group=%r): elements / metadata of the group" % v, rec,
                             impl=dict(data=data_tags(R), meta=elem_tags(R), cond=[str(x) for x in R.metadata["cond"].values]), expected=wt)
            try:
                A = obj.groupby_apply("cond", lambda x: data_tags(x))
                if {str(a): b for a, b in A.items()} != {v: [tags[i] for i in range(n) if cond[i] == v] for v in want}:
                    ctx.fail("oracle", "groupby_apply('cond', f) does not hand f the elements of each group", rec, impl={str(a): b for a, b in A.items()})
            except Exception as e:
                ctx.fail("oracle", "groupby_apply raised %r" % (e,), rec)
            if step >= 2:
                G2 = obj.groupby(["cond", "second"])
                want2 = {}
                for i in range(n):
                    want2.setdefault("%s|%d" % (cond[i], c2[i]), []).append(ids[i])
                got2 = {"%s|%d" % (a, b): [x if isinstance(x, str) else int(x) for x in list(ix)] for (a, b), ix in G2.items()}
                if got2 != want2:
                    ctx.fail("oracle", "groupby(['cond', 'second']) is not the joint grouping of the current metadata", rec, impl=got2, expected=want2)
                lines.append("groupby2 %s %s" % (enc(code), enc(c2))); metas.append((rec, "groupby2", None, got2, ids))
            # a derived object (selection) groups by ITS rows
            if step == 3 and n >= 3 and kind != "frame":
                sub_ids = ids[1:]
                S = obj[sub_ids] if kind == "group" else obj[1:]
                gs = {str(v): [int(x) for x in ix] for v, ix in S.groupby("cond").items()}
                ws = {}
                for j, i in enumerate(range(1, n)):
                    ws.setdefault(cond[i], []).append(ids[i] if kind == "group" else j)
                if gs != ws:
                    ctx.fail("oracle", "groupby on a selection of the object is not the grouping of the selected rows", rec, impl=gs, expected=ws)
    out = ctx.lean.run(lines) if ctx.lean else None
    if out is not None:
        for (rec, op, _, got, ids), o in zip(metas, out):
            if op == "getgroup":
                m = [] if o == "-" else [int(x) for x in o.split(".")] if not o.startswith("ERR") else o
            else:
                m = {}
                for part in (o.split(";") if o else []):
                    kk, ix = part.split(":")
                    key = "abc"[int(kk)] if op == "groupby" else "%s|%d" % ("abc"[int(kk.split(".")[0])], int(kk.split(".")[1]))
                    m[key] = [] if ix == "-" else [ids[int(x)] for x in ix.split(".")]
            if m != got:
                ctx.fail("corr", "%s != model (groupBy on the metadata carried at the time of the call)" % op, rec, impl=got, model=m)


def run(ctx):
    q = ctx.quick
    iset_construct(ctx, 600 if q else 6000)
    iset_indexing(ctx, 250 if q else 3000)
    iset_setops(ctx, 500 if q else 8000)
    frame_cases(ctx, 120 if q else 1500)
    group_cases(ctx, 150 if q else 2000)
    groupby_cases(ctx, 90 if q else 1500)


def replay(ctx, rec):
    print("re-executing the recorded run of `./check C13 quick` with VERIF_SEED=%s; failing input: %s" % (rec.get("seed"), rec.get("input")))
    return None

"""C14 — NumPy functions on time series compute what NumPy computes, time axis intact."""
import numpy as np
from ..common import enc, ns_arr
from ..impl import nap, iset_ns

RULE = ("~90 NumPy call forms (unary / binary ufuncs with scalars and broadcastable raw arrays, python operators, reductions over axis "
        "None / 0 / 1 / 2 / -1 with and without keepdims, cumulative, rounding, reshaping, indexing helpers, linear algebra with raw arrays, "
        "the same functions as methods through __getattr__, and ~30 method calls x.f(args) compared with np.f(x, args) incl. the split family and the refused sorts) x Tsd / TsdFrame / TsdTensor x shapes incl. length 1, 2 and SQUARE shapes "
        "(a non-time axis as long as time): np.asarray(f(x)) == f(x.values) exactly (NaN-aware); if f(x) is a time series it has x's "
        "timestamps, support and - when the column count is unchanged - labels; element-wise results are always time series; the wrapper's "
        "decision (raw / class / labels) == Lean model wrapOut on (n, input shape, output shape); two series operands are refused; "
        "concatenate / vstack / hstack along time: accepted iff strictly increasing (== model), result = stacked data on the union of "
        "supports; split / array_split / vsplit / hsplit: partition of timestamps with their data.  distinct = distinct (function, class, shape)")
PROVED = ("wrap_series_iff, elementwise_wraps, reduction_over_time (square shapes), wrap_keeps_axis, ufunc_refuses_two_series, "
          "split_partition, split_count, concat_accepts_iff, concat_wf")
NOT_PROVED = ("the numeric results themselves (translation validation: the wrapper calls NumPy on .values; compared exactly), union of supports "
              "pointwise (C02), that no timestamp is lost by the constructor after concatenation (oracle)")
ASSUMPTIONS = ["input objects are well formed (C04)"]


def forms():
    """(name, callable on object-or-array, elementwise?)"""
    F = []
    el = lambda n, f: F.append((n, f, True))
    ge = lambda n, f: F.append((n, f, False))
    for nm in ["abs", "negative", "exp", "sin", "cos", "tanh", "floor", "ceil", "sign", "square", "isnan", "isfinite", "logical_not", "rint", "trunc"]:
        el("np." + nm, (lambda g: lambda x: g(x))(getattr(np, nm)))
    el("np.sqrt(abs)", lambda x: np.sqrt(np.abs(x)))
    el("np.log1p(abs)", lambda x: np.log1p(np.abs(x)))
    for nm in ["add", "subtract", "multiply", "maximum", "minimum", "greater", "less_equal", "not_equal"]:
        el("np.%s(x,2.5)" % nm, (lambda g: lambda x: g(x, 2.5))(getattr(np, nm)))
        el("np.%s(-1,x)" % nm, (lambda g: lambda x: g(-1.0, x))(getattr(np, nm)))
    el("np.divide(x,4)", lambda x: np.divide(x, 4.0))
    el("np.power(x,2)", lambda x: np.power(x, 2))
    el("np.mod(x,3)", lambda x: np.mod(x, 3.0))
    el("np.add(x,raw)", lambda x: np.add(x, np.asarray(x) * 0 + 7.0))
    el("np.multiply(x,row)", lambda x: np.multiply(x, np.ones(np.shape(x)[1:]) * 3.0))
    el("x+1", lambda x: x + 1); el("2*x", lambda x: 2 * x); el("x/2", lambda x: x / 2); el("x**2", lambda x: x ** 2)
    el("-x", lambda x: -x); el("x>0", lambda x: x > 0); el("x==1", lambda x: x == 1); el("abs(x)", lambda x: abs(x))
    el("x%2", lambda x: x % 2); el("x//2", lambda x: x // 2); el("1-x", lambda x: 1 - x); el("x-raw", lambda x: x - np.asarray(x))
    # the right operand is whatever the library returns for an axis-0 reduction: a raw array — or, for SQUARE shapes, a
    # time series of another class; the result is still x's values, timestamps, support and labels
    el("x-np.mean(x,0)", lambda x: x - np.mean(x, axis=0)); el("x/np.sum(x,0)", lambda x: x / np.sum(x, 0))
    el("np.subtract(x,x.max(0))", lambda x: np.subtract(x, x.max(0)))
    el("np.clip", lambda x: np.clip(x, -1, 5)); el("np.round", lambda x: np.round(x, 1)); el("np.nan_to_num", lambda x: np.nan_to_num(x))
    el("np.where(x>0,x,0)", lambda x: np.where(np.asarray(x) > 0, x, 0))
    el("np.cumsum(axis0)", lambda x: np.cumsum(x, axis=0)); el("np.cumprod(axis0)", lambda x: np.cumprod(x, axis=0))
    el("np.flip(axis0)", lambda x: np.flip(x, axis=0)); el("np.roll", lambda x: np.roll(x, 1, axis=0))
    el("np.copy", lambda x: np.copy(x)); el("np.real", lambda x: np.real(x)); el("np.isin", lambda x: np.isin(x, [1.0, 2.0]))
    el("np.zeros_like", lambda x: np.zeros_like(x)); el("np.ones_like", lambda x: np.ones_like(x))
    for nm in ["sum", "mean", "std", "var", "min", "max", "median", "prod", "any", "all", "argmin", "argmax", "nansum", "nanmean", "ptp"]:
        g = getattr(np, nm)
        ge("np.%s()" % nm, (lambda g: lambda x: g(x))(g))
        for ax in (0, 1, 2, -1):
            ge("np.%s(axis=%d)" % (nm, ax), (lambda g, ax: lambda x: g(x, axis=ax))(g, ax))
        if nm in ("sum", "mean", "max"):
            ge("np.%s(axis=0,keepdims)" % nm, (lambda g: lambda x: g(x, axis=0, keepdims=True))(g))
            ge("np.%s(axis=-1,keepdims)" % nm, (lambda g: lambda x: g(x, axis=-1, keepdims=True))(g))
    ge("np.cumsum(flat)", lambda x: np.cumsum(x)); ge("np.diff", lambda x: np.diff(x, axis=0)); ge("np.diff(axis-1)", lambda x: np.diff(x, axis=-1))
    ge("np.ravel", lambda x: np.ravel(x)); ge("np.transpose", lambda x: np.transpose(x)); ge("np.squeeze", lambda x: np.squeeze(x))
    ge("np.expand_dims(1)", lambda x: np.expand_dims(x, 1)); ge("np.expand_dims(0)", lambda x: np.expand_dims(x, 0))
    ge("np.reshape(n,-1)", lambda x: np.reshape(x, (np.shape(x)[0], -1))); ge("np.reshape(-1)", lambda x: np.reshape(x, (-1,)))
    ge("np.swapaxes(0,-1)", lambda x: np.swapaxes(x, 0, -1)); ge("np.moveaxis", lambda x: np.moveaxis(x, 0, -1))
    ge("np.take([0])", lambda x: np.take(x, [0], axis=0)); ge("np.repeat", lambda x: np.repeat(x, 2, axis=0)); ge("np.tile", lambda x: np.tile(x, 2))
    ge("np.unique", lambda x: np.unique(x)); ge("np.count_nonzero", lambda x: np.count_nonzero(x)); ge("np.shape", lambda x: np.shape(x))
    ge("np.percentile", lambda x: np.percentile(x, 50, axis=0)); ge("np.average(axis=0)", lambda x: np.average(x, axis=0))
    ge("np.dot(x,raw)", lambda x: np.dot(x, np.ones(np.shape(x)[-1]))); ge("np.mean(axis=(0,))", lambda x: np.mean(x, axis=(0,)))
    ge("np.atleast_2d", lambda x: np.atleast_2d(x))
    # methods through __getattr__
    el("x.clip", lambda x: x.clip(-1, 5)); el("x.cumsum(0)", lambda x: x.cumsum(0)); el("x.round", lambda x: x.round(1))
    ge("x.sum()", lambda x: x.sum()); ge("x.mean(0)", lambda x: x.mean(0)); ge("x.mean(-1)", lambda x: x.mean(-1)); ge("x.max(axis=0)", lambda x: x.max(axis=0))
    ge("x.reshape", lambda x: x.reshape((np.shape(x)[0], -1))); ge("x.flatten", lambda x: x.flatten() if isinstance(x, np.ndarray) else np.ravel(x))
    ge("x.std(0)", lambda x: x.std(0)); ge("x.argmax(0)", lambda x: x.argmax(0)); ge("x.transpose", lambda x: x.transpose())
    return F


def objects(rng):
    out = []
    for n in (1, 2, 3, 5):
        t = np.arange(n) * 0.5 + 1.0
        ep = nap.IntervalSet(0.0, 10.0)
        v = (np.arange(n) - 1.0) * 1.5
        out.append(("Tsd", nap.Tsd(t, v.copy(), time_support=ep)))
        for c in sorted({1, 2, n, 3}):
            d = (np.arange(n * c).reshape(n, c) - 2.0) * 0.5
            d[0, 0] = np.nan if (n + c) % 4 == 0 else d[0, 0]
            out.append(("TsdFrame", nap.TsdFrame(t, d.copy(), columns=["c%d" % i for i in range(c)], time_support=ep,
                                                 metadata={"m": np.arange(c)})))
        for a, b in ((2, 3), (n, n), (1, n)):
            out.append(("TsdTensor", nap.TsdTensor(t, (np.arange(n * a * b).reshape(n, a, b) - 3.0), time_support=ep)))
    return out


def same(a, b):
    try:
        a, b = np.asarray(a), np.asarray(b)
        if a.shape != b.shape:
            return False
        if a.dtype.kind in "fc" or b.dtype.kind in "fc":
            return bool(np.array_equal(a, b, equal_nan=True))
        return bool(np.array_equal(a, b))
    except Exception:
        return False


def numpy_forms(ctx):
    lines, metas = [], []
    for name, f, elementwise in forms():
        for cls, x in objects(ctx.rng):
            shape = list(np.shape(x.values))
            inp = dict(level="numpy", func=name, cls=cls, shape=shape)
            ctx.case((name, cls, tuple(shape)), inp if name == "np.mean(axis=0)" and shape == [3, 3] else None)
            with np.errstate(all="ignore"):
                try:
                    ref = f(x.values)
                except Exception as e:
                    ref = e
                try:
                    r = f(x)
                except Exception as e:
                    r = e
            if isinstance(ref, Exception) or isinstance(r, Exception):
                if isinstance(ref, Exception) != isinstance(r, Exception):
                    ctx.fail("oracle", "%s: one of f(x), f(x.values) raised: %r / %r" % (name, r, ref), inp)
                ctx.count("both_raised"); continue
            is_series = isinstance(r, (nap.Tsd, nap.TsdFrame, nap.TsdTensor))
            if not same(r.values if is_series else r, ref):
                ctx.fail("oracle", "%s: np.asarray(f(x)) != f(x.values)" % name, inp, impl=np.asarray(r.values if is_series else r).tolist(),
                         expected=np.asarray(ref).tolist())
            if is_series:
                if ns_arr(r.index.values) != ns_arr(x.index.values) or iset_ns(r.time_support) != iset_ns(x.time_support):
                    ctx.fail("oracle", "%s: result does not carry x's timestamps / support" % name, inp, impl=ns_arr(r.index.values))
                if cls == "TsdFrame" and isinstance(r, nap.TsdFrame) and r.shape[1] == x.shape[1]:
                    if list(r.columns) != list(x.columns) or list(r.metadata["m"].values) != list(x.metadata["m"].values):
                        ctx.fail("oracle", "%s: column labels / metadata not kept with an unchanged column count" % name, inp, impl=list(r.columns))
            elif elementwise:
                ctx.fail("oracle", "%s: element-wise result is not a time series" % name, inp, impl=type(r).__name__)
            ctx.count("wrapped" if is_series else "raw")
            outshape = None if not hasattr(ref, "shape") else list(np.shape(ref))
            kind = "raw"
            if is_series:
                cols = int(isinstance(r, nap.TsdFrame) and cls == "TsdFrame" and list(r.columns) == list(x.columns) and r.shape[1] == x.shape[1]
                           and "m" in r.metadata_columns)
                kind = "series:%d:%d" % (np.ndim(r.values), cols)
            lines.append("wrap %d %s %s" % (shape[0], enc(shape), "none" if outshape is None else enc(outshape)))
            metas.append((inp, kind, outshape))
    out = ctx.lean.run(lines) if ctx.lean else None
    if out is not None:
        for (inp, kind, outshape), o in zip(metas, out):
            if o != kind:
                ctx.fail("corr", "wrapper decision != model wrapOut", dict(inp, out_shape=outshape), impl=kind, model=o)


def _canon_result(r):
    """a result (object, raw array, list of either) in comparable form"""
    if isinstance(r, (list, tuple)):
        return ("seq",) + tuple(_canon_result(v) for v in r)
    if isinstance(r, (nap.Tsd, nap.TsdFrame, nap.TsdTensor)):
        return (type(r).__name__, tuple(ns_arr(r.index.values)), np.asarray(r.values).shape, np.asarray(r.values, dtype=float).tobytes(),
                tuple(map(tuple, iset_ns(r.time_support))), tuple(map(str, r.columns)) if isinstance(r, nap.TsdFrame) else ())
    a = np.asarray(r)
    return ("raw", a.shape, np.asarray(a, dtype=float).tobytes() if a.dtype.kind in "fiub" else repr(a.tolist()))


def method_forms(ctx):
    """x.f(*args) is np.f(x, *args): whatever the function form does - a time series with its share of the timestamps, a raw
    array, a refusal - the method form does too (C14: 'directly, as an operator, or as a method')"""
    calls = [("split", (1,)), ("array_split", (2,)), ("array_split", (3,)), ("vsplit", (1,)), ("hsplit", (1,)), ("dsplit", (1,)),
             ("sort", ()), ("argsort", ()), ("partition", (0,)), ("argpartition", (0,)), ("cumsum", (0,)), ("cumprod", (0,)),
             ("mean", (0,)), ("sum", (-1,)), ("max", ()), ("squeeze", ()), ("ravel", ()), ("swapaxes", (0, -1)), ("diff", ()),
             ("clip", (-1, 5)), ("round", (1,)), ("take", ([0],)), ("repeat", (2, 0)), ("flip", (0,)), ("roll", (1, 0)), ("nan_to_num", ()),
             ("concatenate", ()), ("expand_dims", (1,)), ("transpose", ()), ("percentile", (50,)), ("count_nonzero", ())]
    for cls, x in objects(ctx.rng):
        for name, args in calls:
            inp = dict(level="method-form", func=name, args=repr(args), cls=cls, shape=list(np.shape(x.values)))
            ctx.case(("m", name, repr(args), cls, tuple(np.shape(x.values))))
            out = []
            for form in ("function", "method"):
                with np.errstate(all="ignore"):
                    try:
                        r = getattr(np, name)(x, *args) if form == "function" else getattr(x, name)(*args)
                        out.append(("ok", _canon_result(r)))
                    except Exception as e:
                        out.append(("raised", type(e).__name__))
            ctx.count("method-form:" + ("both_raised" if out[0][0] == out[1][0] == "raised" else "compared"))
            if out[0][0] != out[1][0] or (out[0][0] == "ok" and out[0][1] != out[1][1]):
                ctx.fail("oracle", "x.%s%s differs from np.%s(x, ...)" % (name, args, name), inp,
                         impl=[out[1][0], repr(out[1][1])[:300]], expected=[out[0][0], repr(out[0][1])[:300]])


def multi_output(ctx):
    """element-wise ufuncs with several outputs (modf, frexp, divmod): every output is f's output on the raw array AND a time
    series on x's time axis ('element-wise operations always return such an object')"""
    fs = [("np.modf", lambda x: np.modf(x)), ("np.frexp", lambda x: np.frexp(x)), ("np.divmod(x,2)", lambda x: np.divmod(x, 2.0)),
          ("divmod(x,2)", lambda x: divmod(x, 2.0))]
    for cls, x in objects(ctx.rng):
        for name, f in fs:
            inp = dict(level="multi-output", func=name, cls=cls, shape=list(np.shape(x.values)))
            ctx.case(("mo", name, cls, tuple(np.shape(x.values))))
            with np.errstate(all="ignore"):
                ref = f(x.values)
                try:
                    r = f(x)
                except Exception as e:
                    ctx.fail("oracle", "%s raised %r" % (name, e), inp); continue
            if not isinstance(r, tuple) or len(r) != len(ref):
                ctx.fail("oracle", "%s: not a tuple of %d outputs" % (name, len(ref)), inp, impl=type(r).__name__); continue
            for j, (o, q) in enumerate(zip(r, ref)):
                if not isinstance(o, type(x)):
                    ctx.fail("oracle", "%s: output %d is not a time series" % (name, j), inp, impl=type(o).__name__)
                elif not same(o.values, q) or ns_arr(o.index.values) != ns_arr(x.index.values) or iset_ns(o.time_support) != iset_ns(x.time_support):
                    ctx.fail("oracle", "%s: output %d differs from f(x.values) / lost the time axis" % (name, j), inp)


def two_operands(ctx):
    t = np.arange(4.0)
    a, b = nap.Tsd(t, np.arange(4.0)), nap.Tsd(t, np.ones(4))
    fa, fb = nap.TsdFrame(t, np.ones((4, 2))), nap.TsdFrame(t, np.ones((4, 2)))
    for name, f in (("Tsd+Tsd", lambda: a + b), ("np.add(Tsd,Tsd)", lambda: np.add(a, b)), ("Frame*Frame", lambda: fa * fb), ("Tsd<Tsd", lambda: a < b)):
        ctx.case(("two", name))
        try:
            r = f()
            ctx.fail("oracle", "%s: two operands of the same class were accepted" % name, dict(level="two-operands", expr=name), impl=type(r).__name__)
        except TypeError:
            pass
    r = a + b.values
    if not isinstance(r, nap.Tsd) or not same(r.values, a.values + b.values):
        ctx.fail("oracle", "Tsd + raw array", dict(level="two-operands"))


def concat_split(ctx, n_cases):
    rng = ctx.rng
    lines, metas = [], []
    for c in range(n_cases):
        k = rng.randint(2, 3)
        parts, cur = [], rng.randint(0, 5)
        mode = c % 5          # 0: increasing, 1: touching (last == first), 2: overlapping, 3: out of order,
        dup_at = rng.randrange(k)   # 4: every junction increasing but one operand repeats a timestamp INSIDE itself
        for j in range(k):
            n = rng.randint(1, 4)
            ts = [cur + i for i in range(n)]
            if mode == 4 and j == dup_at:
                ts = sorted(ts + [rng.choice(ts)])
            parts.append(ts)
            cur = ts[-1] + (1 if mode in (0, 4) else 0 if mode == 1 else -1 if mode == 2 else 1) + (rng.randint(0, 3) if mode == 0 else 0)
        if mode == 3:
            parts = parts[::-1]
        cls = c % 3
        objs = []
        for j, ts in enumerate(parts):
            t = np.array(ts, dtype=float)
            ep = nap.IntervalSet(float(ts[0]) - 0.25, float(ts[-1]) + 0.25)
            if cls == 0:
                objs.append(nap.Tsd(t, 100.0 * j + np.arange(len(ts)), time_support=ep))
            elif cls == 1:
                objs.append(nap.TsdFrame(t, 100.0 * j + np.arange(len(ts) * 2).reshape(len(ts), 2), columns=["p", "q"], time_support=ep))
            else:
                objs.append(nap.TsdTensor(t, 100.0 * j + np.arange(len(ts) * 4).reshape(len(ts), 2, 2), time_support=ep))
        flat = [t for p in parts for t in p]
        ok = all(flat[i] < flat[i + 1] for i in range(len(flat) - 1))
        for fname, f in (("concatenate", lambda o: np.concatenate(o)), ("vstack", lambda o: np.vstack(o)), ("concatenate(axis=0)", lambda o: np.concatenate(o, axis=0)),
                         ("concatenate(o, np.int64(0))", lambda o: np.concatenate(o, np.int64(0)))):
            if fname == "vstack" and cls == 0:
                continue
            inp = dict(level="concat", func=fname, cls=["Tsd", "TsdFrame", "TsdTensor"][cls], parts=parts)
            ctx.case(("cc", fname, cls, tuple(map(tuple, parts))), inp if c % 37 == 0 else None)
            try:
                r = f(tuple(objs)); raised = False
            except RuntimeError:
                raised = True
            if raised == ok:
                ctx.fail("oracle", "%s along time: accepted=%s but timestamps strictly increasing=%s" % (fname, not raised, ok), inp)
                continue
            if not raised:
                ref = f(tuple(o.values for o in objs))
                if not isinstance(r, (nap.Tsd, nap.TsdFrame, nap.TsdTensor)) or not same(r.values, ref) or \
                        ns_arr(r.index.values) != [int(t * 1e9) for t in flat]:
                    ctx.fail("oracle", "%s: result is not the stacked data on the stacked timestamps" % fname, inp)
                else:
                    u = objs[0].time_support
                    for o in objs[1:]:
                        u = u.union(o.time_support)
                    if iset_ns(r.time_support) != iset_ns(u):
                        ctx.fail("oracle", "%s: support is not the union of the supports" % fname, inp, impl=iset_ns(r.time_support))
                    if cls == 1 and list(r.columns) != ["p", "q"]:
                        ctx.fail("oracle", "%s: column labels lost" % fname, inp)
            lines.append("concatok " + "/".join(enc(p) for p in parts)); metas.append((inp, "0" if raised else "1"))
        # a positional axis given as a NumPy integer is the axis (joining columns, not time): same numbers as NumPy on the raw arrays
        if cls == 1 and len({len(p) for p in parts}) == 1:
            same_t = [nap.TsdFrame(objs[0].t, o.values, columns=["p", "q"], time_support=objs[0].time_support) for o in objs]
            for ax in (1, np.int64(1), np.int32(-1)):
                r = np.concatenate(tuple(same_t), ax)
                ref = np.concatenate(tuple(o.values for o in same_t), ax)
                if not same(r.values if hasattr(r, "values") else r, ref):
                    ctx.fail("oracle", "np.concatenate(frames, %r): result differs from NumPy on the raw arrays" % (ax,),
                             dict(level="concat-axis", axis=repr(ax), n=len(parts[0])), impl=list(np.shape(r)), expected=list(ref.shape))
        # split families on the (valid) first object extended
        n = rng.randint(2, 7)
        t = np.arange(n, dtype=float) + 3
        x = [nap.Tsd(t, np.arange(n) * 2.0), nap.TsdFrame(t, np.arange(n * 2).reshape(n, 2) * 1.0, columns=["p", "q"]),
             nap.TsdTensor(t, np.arange(n * 4).reshape(n, 2, 2) * 1.0)][cls]
        cuts = sorted(rng.sample(range(0, n + 1), rng.randint(1, min(3, n))))
        # split points as NumPy accepts them: also lists that step back ([5, 2, 6]: an empty piece, then rows 2..5 AGAIN) and "sorted" lists mixing
        # negative and positive entries ([-6, 1, 5]): every piece carries the timestamps of ITS rows
        back = [rng.randint(0, n) for _ in range(rng.randint(2, 3))]
        mixed = sorted([-rng.randint(1, n), rng.randint(0, n), rng.randint(0, n)])
        for fname, f, arg in (("split", np.split, cuts), ("array_split", np.array_split, rng.randint(1, n)), ("array_split(cuts)", np.array_split, cuts),
                              ("split(stepping back)", np.split, back), ("array_split(stepping back)", np.array_split, np.array(back)),
                              ("split(negative and positive)", np.split, mixed), ("vsplit(stepping back)", np.vsplit, back)):
            if fname.startswith("vsplit") and cls == 0:
                continue
            if "back" in fname or "negative" in fname:
                inp = dict(level="split", func=fname, cls=["Tsd", "TsdFrame", "TsdTensor"][cls], n=n, arg=[int(v) for v in arg])
                ctx.case(("sp", fname, cls, n, repr(list(arg))))
                try:
                    pieces = f(x, arg)
                except Exception as e:
                    ctx.fail("oracle", "%s raised %r" % (fname, e), inp); continue
                refs = f(x.values, arg); reft = np.split(x.index.values, arg)
                for p_, r_, t_ in zip(pieces, refs, reft):
                    if not hasattr(p_, "index"):
                        if len(r_):
                            ctx.fail("oracle", "%s: a non-empty piece came back without timestamps" % fname, inp, impl=type(p_).__name__); break
                        continue
                    if not same(p_.values, r_) or ns_arr(p_.index.values) != ns_arr(t_):
                        ctx.fail("oracle", "%s: a piece does not carry the timestamps of its own rows" % fname, inp,
                                 impl=ns_arr(p_.index.values), expected=ns_arr(t_)); break
                if len(pieces) != len(refs):
                    ctx.fail("oracle", "%s: number of pieces" % fname, inp, impl=len(pieces), expected=len(refs))
                if all(int(v) >= 0 for v in arg):
                    # the same split through the Lean model of NumPy's rule for ANY split points (`npSplit`, theorem `npSplit_zip`)
                    enc_piece = lambda p_: "-" if not hasattr(p_, "index") or len(p_) == 0 else ",".join(str(v) for v in ns_arr(p_.index.values))
                    lines.append("npsplit %s %s" % (enc(ns_arr(x.index.values)), enc([int(v) for v in arg])))
                    metas.append((inp, "|".join(enc_piece(p_) for p_ in pieces)))
                continue
            inp = dict(level="split", func=fname, cls=["Tsd", "TsdFrame", "TsdTensor"][cls], n=n, arg=arg)
            ctx.case(("sp", fname, cls, n, repr(arg)))
            try:
                pieces = f(x, arg)
            except Exception as e:
                ctx.fail("oracle", "%s raised %r" % (fname, e), inp); continue
            refs = f(x.values, arg)
            tt = [ns for p in pieces for ns in ns_arr(p.index.values)]
            if len(pieces) != len(refs) or tt != ns_arr(x.index.values) or not all(same(p.values, r) for p, r in zip(pieces, refs)):
                ctx.fail("oracle", "%s does not partition the timestamps with their data" % fname, inp)
            if any(len(p) and not all(any(a <= s <= b for a, b in zip(*iset_ns(p.time_support))) for s in ns_arr(p.index.values)) for p in pieces):
                ctx.fail("oracle", "%s: a piece has timestamps outside its support" % fname, inp)
        if cls == 1:
            pieces = np.hsplit(x, 2)
            if len(pieces) != 2 or any(ns_arr(p.index.values) != ns_arr(x.index.values) for p in pieces) or \
                    not same(np.hstack([p.values for p in pieces]), x.values):
                ctx.fail("oracle", "hsplit does not keep the time axis / partition the columns", dict(level="split", func="hsplit", n=n))
    out = ctx.lean.run(lines) if ctx.lean else None
    if out is not None:
        for (inp, got), o in zip(metas, out):
            if got != o:
                ctx.fail("corr", "split pieces != model npSplit" if inp.get("level") == "split" else "concatenate accepted != model concatAccepts", inp, impl=got, model=o)


def run(ctx):
    numpy_forms(ctx)
    method_forms(ctx)
    multi_output(ctx)
    two_operands(ctx)
    concat_split(ctx, 150 if ctx.quick else 2000)


def replay(ctx, rec):
    print("re-executing the recorded run of `./check C14 quick` with VERIF_SEED=%s; failing input: %s" % (rec.get("seed"), rec.get("input")))
    return None

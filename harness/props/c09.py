"""C09 — seconds, milliseconds and microseconds denote the same instants everywhere."""
import importlib.util, os
import numpy as np
import pandas as pd
from ..common import VERIF, ns, ns_arr
from ..impl import nap, iset_ns

RULE = ("translator: unit-conversion call sites and suppress_* flag uses regenerated from the current source and re-checked by `decide` "
        "against the hand-written specification of time arguments; differential equivariance on the implementation: every unit-accepting "
        "entry point of the quantifier (6 constructors; count, bin_average, get, get_slice, find_support, smooth, drop_short/long_intervals, "
        "merge_close_intervals, split, tot_length, trial_count, build_tensor, 3 correlograms, 3 perievent functions, decode_1d/2d, mean PSD, "
        "times/as_units/start_time/end_time/in_units) x units {s, ms, us} x the 4 combinations of the two suppress_* flags, on random "
        "microsecond-lattice inputs within +/-1e5 s (unsorted timestamps included): canonical result (times through alpha, data exactly) "
        "must equal the (s, flags off) reference.  distinct = distinct (entry point, input)")
PROVED = ("fmt_units_agree (all rational times), fmt_lattice, fmt_int, ret_is_seconds_times_factor, ret_fmt_lattice, index_sorted; "
          "every_time_argument_converted_once_with_own_unit, every_time_result_returned_in_own_unit, no_literal_or_default_unit, "
          "suppress_flags_only_guard_warnings (decide over the regenerated tables)")
NOT_PROVED = ("the float step (k*1e-3/1e3 rounds to the double nearest k*1e-6 after np.around(.,9)) and the end-to-end equivariance of each "
              "entry point: measured by the differential run")
ASSUMPTIONS = ["inputs on the microsecond lattice within +/-1e5 s"]
UNITS = {"s": 1e-6, "ms": 1e-3, "us": 1.0}     # value of one lattice step (1 us) in the unit


def _extractor():
    spec = importlib.util.spec_from_file_location("extract_unit_sites", os.path.join(VERIF, "tools", "extract_unit_sites.py"))
    m = importlib.util.module_from_spec(spec); spec.loader.exec_module(m)
    return m


def pregen():
    d, _ = _extractor().main()
    if d["unrecognised"]:
        raise RuntimeError("extractor: unrecognised shapes %s" % d["unrecognised"])


def V(k, u):
    """lattice integers (microseconds) -> numbers in unit u, the way a user would write them"""
    a = np.asarray(k, dtype=np.float64)
    if u == "s":
        return a / 1e6
    if u == "ms":
        return a / 1e3
    return a


def canon(o):
    """canonical comparable form (never raw float times)"""
    if isinstance(o, nap.IntervalSet):
        return ("iset",) + tuple(map(tuple, iset_ns(o)))
    if isinstance(o, nap.TsGroup):
        return ("group", tuple(int(k) for k in o.keys()), tuple(canon(o[k]) for k in o.keys()), canon(o.time_support))
    if isinstance(o, (nap.Ts, nap.Tsd, nap.TsdFrame, nap.TsdTensor)):
        v = () if isinstance(o, nap.Ts) else tuple(np.round(np.nan_to_num(np.asarray(o.values, dtype=float), nan=-7777.0), 9).ravel().tolist())
        return (type(o).__name__, tuple(ns_arr(o.index.values)), v, canon(o.time_support))
    if isinstance(o, pd.DataFrame):
        return ("df", tuple(ns_arr(o.index.values)), tuple(np.round(np.nan_to_num(o.values.astype(float), nan=-7777.0), 9).ravel().tolist()))
    if isinstance(o, slice):
        return ("slice", o.start, o.stop, o.step)
    if isinstance(o, np.ndarray):
        return ("arr", o.shape, tuple(np.round(np.nan_to_num(o.astype(float), nan=-7777.0), 9).ravel().tolist()))
    if isinstance(o, (tuple, list)):
        return tuple(canon(x) for x in o)
    if isinstance(o, dict):
        return tuple((k, canon(v)) for k, v in sorted(o.items()))
    if isinstance(o, float):
        return round(o, 9)
    return o


def back(x, u):
    """a time returned in unit u -> integer ns (stored seconds x factor, undone)"""
    a = np.atleast_1d(np.asarray(x, dtype=np.float64))
    f = {"s": 1e9, "ms": 1e6, "us": 1e3}[u]
    return tuple(int(v) for v in np.rint(a * f))


def entry_points(rng):
    """each entry: name, builder(unit) -> canonical result.  All random choices are made HERE (once), on the lattice."""
    E = []
    span = 10**11          # +/- 1e5 s in microseconds
    off = rng.randrange(-span + 10**8, span - 10**8)
    n = rng.randint(3, 9)
    tk = [off + rng.randrange(0, 40) * 250000 for _ in range(n)]          # unsorted, possibly duplicated, 0.25 s grid
    tks = sorted(set(tk))
    lo, hi = min(tk), max(tk)
    epk = ([lo - 500000, lo + 4000000], [lo + 3000000, hi + 500000])       # two epochs (may leave a gap)
    if epk[0][1] <= epk[1][0]:
        epk = ([lo - 500000], [hi + 500000])
    d = np.arange(len(tks), dtype=float) + 1
    d2 = np.arange(len(tk), dtype=float) + 1

    def ep_s():
        return nap.IntervalSet(start=V(epk[0], "s"), end=V(epk[1], "s"))
    def ts_s():
        return nap.Ts(V(tks, "s"), time_support=ep_s())
    def tsd_s():
        return nap.Tsd(V(tks, "s"), d, time_support=nap.IntervalSet(V([lo - 10**6], "s"), V([hi + 10**6], "s")))
    def frame_s():
        return nap.TsdFrame(V(tks, "s"), np.stack([d, d * 2], 1), time_support=nap.IntervalSet(V([lo - 10**6], "s"), V([hi + 10**6], "s")))
    def group_s():
        return nap.TsGroup({3: nap.Ts(V(tks, "s")), 1: nap.Ts(V(tks[::2], "s"))}, time_support=nap.IntervalSet(V([lo - 10**6], "s"), V([hi + 10**6], "s")))
    bink = rng.choice([250000, 500000, 1000000, 2000000])
    a_k = lo + rng.randrange(-4, 30) * 250000
    b_k = a_k + rng.randrange(0, 20) * 250000
    E.append(("Ts()", lambda u: canon(nap.Ts(V(tk, u), time_units=u))))
    E.append(("Ts(support)", lambda u: canon(nap.Ts(V(tk, u), time_units=u, time_support=ep_s()))))
    E.append(("Tsd()", lambda u: canon(nap.Tsd(V(tks, u), d, time_units=u))))
    # unit AND support given together (the support itself is built in seconds)
    E.append(("Tsd(support)", lambda u: canon(nap.Tsd(V(tks, u), d, time_units=u, time_support=ep_s()))))
    E.append(("TsdFrame(support)", lambda u: canon(nap.TsdFrame(V(tks, u), np.stack([d, d], 1), time_units=u, time_support=ep_s()))))
    E.append(("TsdTensor(support)", lambda u: canon(nap.TsdTensor(V(tks, u), np.stack([d, d], 1).reshape(len(tks), 2, 1), time_units=u, time_support=ep_s()))))
    E.append(("Tsd(unsorted,support)", lambda u: canon(nap.Tsd(V(tk, u), d2, time_units=u, time_support=ep_s()))))
    E.append(("IntervalSet(pairs)", lambda u: canon(nap.IntervalSet(np.stack([V(epk[0], u), V(epk[1], u)], 1), time_units=u))))
    E.append(("TsdFrame()", lambda u: canon(nap.TsdFrame(V(tks, u), np.stack([d, d], 1), time_units=u))))
    E.append(("TsdTensor()", lambda u: canon(nap.TsdTensor(V(tks, u), np.stack([d, d], 1).reshape(len(tks), 2, 1), time_units=u))))
    E.append(("IntervalSet()", lambda u: canon(nap.IntervalSet(start=V(epk[0], u), end=V(epk[1], u), time_units=u))))
    # degenerate input the constructor repairs (touching: 1 us trimmed from the earlier one; overlapping; zero-length) - the repair must not depend on the unit
    st2 = [lo, lo + 10**6, lo + 3 * 10**6, lo + 5 * 10**6, lo + 5 * 10**6 + 500000, lo + 9 * 10**6]
    en2 = [lo + 10**6, lo + 2 * 10**6, lo + 4 * 10**6, lo + 6 * 10**6, lo + 7 * 10**6, lo + 9 * 10**6]
    E.append(("IntervalSet(touching,overlapping,empty)", lambda u: canon(nap.IntervalSet(start=V(st2, u), end=V(en2, u), time_units=u))))
    E.append(("IntervalSet(touching pairs)", lambda u: canon(nap.IntervalSet(np.stack([V(st2[:3], u), V(en2[:3], u)], 1), time_units=u))))
    E.append(("IntervalSet(touching).tot_length", lambda u: back(nap.IntervalSet(start=V(st2[:2], u), end=V(en2[:2], u), time_units=u).tot_length(u), u)))
    E.append(("IntervalSet(unsorted)", lambda u: canon(nap.IntervalSet(start=V(epk[0][::-1], u), end=V(epk[1][::-1], u), time_units=u))))
    E.append(("TsGroup(arrays)", lambda u: canon(nap.TsGroup({2: V(tk, u), 0: V(tks[::2], u)}, time_units=u))))
    E.append(("TsGroup(arrays,support)", lambda u: canon(nap.TsGroup({2: V(tk, u), 0: V(tks[::2], u)}, time_units=u, time_support=ep_s()))))
    E.append(("count", lambda u: canon(ts_s().count(float(V(bink, u)), time_units=u))))
    E.append(("count(ep)", lambda u: canon(tsd_s().count(float(V(bink, u)), ep_s(), time_units=u))))
    E.append(("TsGroup.count", lambda u: canon(group_s().count(float(V(bink, u)), time_units=u))))
    E.append(("bin_average", lambda u: canon(tsd_s().bin_average(float(V(bink, u)), time_units=u))))
    E.append(("bin_average(frame,ep)", lambda u: canon(frame_s().bin_average(float(V(bink, u)), ep_s(), time_units=u))))
    E.append(("get(a,b)", lambda u: canon(tsd_s().get(float(V(a_k, u)), float(V(b_k, u)), time_units=u))))
    E.append(("get(a)", lambda u: canon(tsd_s().get(float(V(a_k, u)), time_units=u))))
    E.append(("get_slice(a,b)", lambda u: canon(tsd_s().get_slice(float(V(a_k, u)), float(V(b_k, u)), time_unit=u))))
    E.append(("TsGroup.get", lambda u: canon(group_s().get(float(V(a_k, u)), float(V(b_k, u)), time_units=u))))
    gapk = rng.choice([250000, 750000, 1500000])
    E.append(("find_support", lambda u: canon(tsd_s().find_support(float(V(gapk, u)), time_units=u))))
    E.append(("smooth", lambda u: canon(tsd_s().smooth(float(V(500000, u)), windowsize=float(V(2000000, u)), time_units=u))))
    E.append(("smooth(std only)", lambda u: canon(frame_s().smooth(float(V(500000, u)), time_units=u, size_factor=4))))
    thrk = rng.choice([500000, 1000000, 3500000, 4500000])
    E.append(("drop_short_intervals", lambda u: canon(ep_s().drop_short_intervals(float(V(thrk, u)), time_units=u))))
    E.append(("drop_long_intervals", lambda u: canon(ep_s().drop_long_intervals(float(V(thrk, u)), time_units=u))))
    E.append(("merge_close_intervals", lambda u: canon(ep_s().merge_close_intervals(float(V(thrk, u)), time_units=u))))
    E.append(("split", lambda u: canon(ep_s().split(float(V(bink, u)), time_units=u))))
    E.append(("tot_length", lambda u: back(ep_s().tot_length(time_units=u), u)))
    E.append(("trial_count", lambda u: canon(np.asarray(ts_s().trial_count(ep_s(), float(V(bink, u)), time_unit=u)))))
    E.append(("TsGroup.trial_count", lambda u: canon(np.asarray(group_s().trial_count(ep_s(), float(V(bink, u)), time_unit=u)))))
    E.append(("build_tensor", lambda u: canon(np.asarray(nap.build_tensor(ts_s(), ep_s(), bin_size=float(V(bink, u)), time_unit=u)))))
    wk = rng.choice([1000000, 2000000])
    E.append(("autocorrelogram", lambda u: canon(nap.compute_autocorrelogram(group_s(), float(V(bink, u)), float(V(wk, u)), time_units=u))))
    E.append(("crosscorrelogram", lambda u: canon(nap.compute_crosscorrelogram(group_s(), float(V(bink, u)), float(V(wk, u)), time_units=u))))
    E.append(("eventcorrelogram", lambda u: canon(nap.compute_eventcorrelogram(group_s(), nap.Ts(V(tks[::2], "s")), float(V(bink, u)), float(V(wk, u)), time_units=u))))
    E.append(("perievent", lambda u: canon(nap.compute_perievent(ts_s(), nap.Ts(V(tks[1::3], "s")), (float(V(-750000, u)), float(V(1250000, u))), time_unit=u))))
    E.append(("perievent(scalar)", lambda u: canon(nap.compute_perievent(group_s(), nap.Ts(V(tks[1::3], "s")), float(V(1000000, u)), time_unit=u))))
    E.append(("perievent_continuous", lambda u: canon(nap.compute_perievent_continuous(
        nap.Tsd(V([lo + i * 250000 for i in range(40)], "s"), np.arange(40.0)), nap.Ts(V(tks[1::3], "s")),
        (float(V(500000, u)), float(V(750000, u))), time_unit=u))))
    E.append(("event_trigger_average", lambda u: canon(nap.compute_event_trigger_average(
        group_s(), nap.Tsd(V([lo + i * 250000 for i in range(40)], "s"), np.arange(40.0)), float(V(250000, u)),
        (float(V(500000, u)), float(V(500000, u))), time_unit=u))))
    tc = pd.DataFrame(index=np.array([0.5, 1.5, 2.5]), data=np.array([[1.0, 5.0], [4.0, 2.0], [2.0, 3.0]]), columns=[1, 3])
    E.append(("decode_1d", lambda u: canon(nap.decode_1d(tc, group_s(), ep_s(), float(V(bink * 2, u)), time_units=u))))
    tc2 = {1: np.array([[1.0, 2.0], [3.0, 4.0]]), 3: np.array([[2.0, 1.0], [1.0, 5.0]])}
    xy = [np.array([0.5, 1.5]), np.array([0.5, 1.5])]
    E.append(("decode_2d", lambda u: canon(nap.decode_2d(tc2, group_s(), ep_s(), float(V(bink * 2, u)), xy, time_units=u))))
    sig = nap.Tsd(V([lo + i * 250000 for i in range(64)], "s"), np.sin(np.arange(64.0)))
    E.append(("mean_psd", lambda u: canon(nap.compute_mean_power_spectral_density(sig, float(V(4000000, u)), fs=4.0, time_unit=u))))
    # results returned in a unit: stored seconds x factor
    E.append(("times(units)", lambda u: back(tsd_s().times(u), u)))
    E.append(("as_units", lambda u: back(tsd_s().as_units(u).index.values, u)))
    E.append(("frame.as_units", lambda u: back(frame_s().as_units(u).index.values, u)))
    E.append(("start/end_time", lambda u: back([tsd_s().start_time(u), tsd_s().end_time(u)], u)))
    E.append(("index.in_units", lambda u: back(tsd_s().index.in_units(u), u)))
    E.append(("IntervalSet.as_units", lambda u: back(ep_s().as_units(u).values.ravel(), u)))
    return E, dict(tk=tk, ep=epk, bin=bink, a=a_k, b=b_k, thr=thrk, gap=gapk)


def run(ctx):
    cfg = nap.nap_config
    old = (cfg.suppress_conversion_warnings, cfg.suppress_time_index_sorting_warnings)
    rounds = 15 if ctx.quick else 200
    try:
        for r in range(rounds):
            E, desc = entry_points(ctx.rng)
            for name, fn in E:
                ref = None
                inp = dict(level="equivariance", entry=name, lattice_us=desc)
                ctx.case((name, repr(desc)), inp if r == 0 and name in ("Ts()", "count") else None)
                ctx.count("entry:" + name)
                for fa in (False, True):
                    for fb in (False, True):
                        cfg.suppress_conversion_warnings = fa
                        cfg.suppress_time_index_sorting_warnings = fb
                        for u in ("s", "ms", "us"):
                            try:
                                got = fn(u)
                            except Exception as e:
                                got = ("raised", type(e).__name__, str(e)[:80])
                            if ref is None:
                                ref = got
                                if isinstance(got, tuple) and got and got[0] == "raised":
                                    ctx.count("reference_raised:" + name)
                            elif got != ref:
                                ctx.fail("oracle", "%s: unit=%s suppress_conversion=%s suppress_sorting=%s differs from (s, off, off)" % (name, u, fa, fb),
                                         dict(inp, unit=u, flags=[fa, fb]), impl=str(got)[:600], expected=str(ref)[:600])
            # results built inside the library (aligned spike times are differences of stored times) are stored rounded to 1 ns too
            # (decimal, non-dyadic times: 0.3 - 0.1 is 0.19999999999999998 before rounding)
            sp = np.round(np.arange(1, 60) * 0.1 + (r % 7) * 0.01, 9)
            pe = nap.compute_perievent(nap.Ts(sp), nap.Ts(np.round(np.arange(1, 6) * 0.7, 9)), 1.25)
            for key in pe.keys():
                tt = np.asarray(pe[key].t)
                if not np.array_equal(tt, np.around(tt, 9)) or any(tt[i] > tt[i + 1] for i in range(len(tt) - 1)):
                    ctx.fail("oracle", "compute_perievent: stored timestamps of a member are not the sorted 1-ns-rounded seconds",
                             dict(level="stored", lattice_us=desc, member=int(key)), impl=[repr(float(v)) for v in tt[:6]])
                    break
            # stored timestamps: seconds rounded to 1 ns and sorted, for unsorted input
            cfg.suppress_conversion_warnings, cfg.suppress_time_index_sorting_warnings = False, False
            for fb in (False, True):
                cfg.suppress_time_index_sorting_warnings = fb
                x = nap.Ts(V(desc["tk"], "us"), time_units="us")
                if ns_arr(x.t) != sorted(k * 1000 for k in desc["tk"]):
                    ctx.fail("oracle", "stored timestamps are not the sorted 1-ns-rounded seconds (suppress_sorting=%s)" % fb,
                             dict(level="stored", lattice_us=desc), impl=ns_arr(x.t))
            # ... and for timestamps handed over as (a view of / a selection from / a computation on) another object's index: reversed and strided
            # slices are READ-ONLY views of the frozen index, fancy selections and arithmetic are fresh arrays - times(units) of the new object are
            # the sorted stored seconds x factor either way
            cfg.suppress_time_index_sorting_warnings = False
            src = nap.Ts(V(desc["tk"], "us"), time_units="us")
            nsrc = len(src)
            forms = [("index[::-1]", src.index[::-1]), ("index[::-2]", src.index[::-2]), ("index[n-2:0:-1]", src.index[nsrc - 2:0:-1]),
                     ("index[[n-1, 0, 1]]", src.index[[nsrc - 1, 0, 1]]), ("index[::-1] + 0.25", src.index[::-1] + 0.25), ("index[1:]", src.index[1:])]
            for fname, ix in forms:
                want = sorted(ns_arr(np.asarray(ix)))
                for cname, mk in (("Ts", lambda: nap.Ts(t=ix)), ("Tsd", lambda: nap.Tsd(t=ix, d=np.arange(len(ix), dtype=float))),
                                  ("TsdFrame", lambda: nap.TsdFrame(t=ix, d=np.zeros((len(ix), 1))))):
                    ctx.count("from-index:" + fname)
                    try:
                        o = mk()
                    except Exception as e:
                        ctx.fail("oracle", "%s(t=%s) raised %r" % (cname, fname, e), dict(level="from-index", lattice_us=desc, form=fname, cls=cname)); continue
                    for u in ("s", "ms", "us"):
                        tu = np.asarray(o.times(u))
                        if list(back(tu, u)) != want or any(tu[i] > tu[i + 1] for i in range(len(tu) - 1)):
                            ctx.fail("oracle", "%s(t=%s).times(%r) is not the sorted stored time x factor" % (cname, fname, u),
                                     dict(level="from-index", lattice_us=desc, form=fname, cls=cname, unit=u), impl=[float(v) for v in tu[:6]], expected=want[:6])
                            break
    finally:
        cfg.suppress_conversion_warnings, cfg.suppress_time_index_sorting_warnings = old


def replay(ctx, rec):
    print("re-executing the recorded run of `./check C09 quick` with VERIF_SEED=%s; failing input: %s" % (rec.get("seed"), rec.get("input")))
    return None

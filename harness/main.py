"""./check <ID> quick|thorough   |   ./check <ID> --replay <path>     (cwd = /verif)"""
import importlib, json, os, sys, time, traceback
from . import common, lean
from .common import VERIF, Ctx, jsonable

TRUSTED = [
    "Lean 4.33.0 kernel (leanchecker re-check in thorough)",
    "axioms allowed: propext, Classical.choice, Quot.sound (audited with #print axioms on every run)",
    "correspondence check (this harness + Lean driver): differential testing, bounded by its generators",
    "CPython/numba semantics of the modelled kernels on in-bounds, assigned executions",
    "IEEE arithmetic and the 1e-9 rounding: time is exact integer ns in the model (DESIGN 2.3)",
    "NumPy/SciPy/pandas primitives used as specification functions (sort, searchsorted, interp, histogram, fft, convolve, savez/load)",
]


EVID = os.environ.get("VERIF_EVIDENCE_DIR") or os.path.join(VERIF, "evidence")   # seeded-mutation trials write elsewhere


def write_replay(pid, name, payload):
    d = os.path.join(EVID, "replays")
    os.makedirs(d, exist_ok=True)
    p = os.path.join(d, "%s-%s.json" % (pid, name))
    json.dump(jsonable(payload), open(p, "w"), indent=1)
    return os.path.relpath(p, VERIF)


def generic_replay(pid, mod, rec, drv):
    """Replay of a record that is not a stand-alone case (a step of a history, a drawn configuration): re-execute the run that
    produced it - same seed, same tier, the CURRENT /repo - and look for the recorded failure (same kind, message and input).
    A record without a failing input (broken obligation / correspondence) is replayed by the whole check."""
    seed = int(rec.get("seed", 0) or 0)
    tier = rec.get("tier", "quick") if rec.get("tier") in ("quick", "thorough") else "quick"
    if rec.get("no_failing_input_found") or "input" not in rec:
        import subprocess, tempfile
        with tempfile.TemporaryDirectory(dir=os.path.join(VERIF, ".work")) as td:
            p = subprocess.run([sys.executable, "-m", "harness.main", pid, tier], cwd=VERIF, capture_output=True, text=True,
                               env=dict(os.environ, VERIF_SEED=str(seed), VERIF_EVIDENCE_DIR=td))
        print(p.stdout[-1500:])
        return p.returncode == 0
    if hasattr(mod, "pregen"):
        mod.pregen()
    ctx = Ctx(pid, tier, seed, drv)
    mod.run(ctx)
    key = lambda f: (f.get("kind"), f.get("what"), json.dumps(jsonable(f.get("input")), sort_keys=True))
    want = key(rec)
    hits = [f for f in ctx.failures if key(f) == want]
    for f in hits[:3]:
        print(f["kind"], f["what"], "input=", json.dumps(jsonable(f["input"]))[:600], "impl=", str(f.get("impl"))[:300])
    others = [f for f in ctx.failures if key(f) != want]
    if others:
        print("(%d other failures in this run, e.g. %s)" % (len(others), others[0]["what"]))
    return not hits


def main(argv):
    if len(argv) < 3:
        print(__doc__); return 2
    pid = argv[1]
    t0 = time.time()
    seed = int(os.environ.get("VERIF_SEED", "0") or 0)
    mod = importlib.import_module("harness.props." + pid.lower())
    if argv[2] == "--replay":
        rec = json.load(open(argv[3]))
        drv = lean.Driver() if os.path.exists(lean.DRIVER) else None
        ctx = Ctx(pid, "quick", seed, drv)
        ok = mod.replay(ctx, rec)
        if ok is None:
            ok = generic_replay(pid, mod, rec, drv)
        print("replay %s: %s" % (argv[3], "property holds on this input now" if ok else "STILL FAILS"))
        return 0 if ok else 1
    tier = argv[2]
    assert tier in ("quick", "thorough")
    for fn in ("failing-input", "unverified"):
        try:
            os.remove(os.path.join(EVID, "replays", "%s-%s.json" % (pid, fn)))
        except OSError:
            pass
    tier = os.environ.get("VERIF_TIER", tier) if os.environ.get("VERIF_TIER") in ("quick", "thorough") else tier

    broken = []   # proof obligations / tie that no longer check
    # 1. regenerate tables from /repo
    if hasattr(mod, "pregen"):
        try:
            mod.pregen()
        except Exception as e:
            broken.append(dict(what="translator", detail="pregen failed: %r" % (e,)))
    # 2. build
    extra = list(getattr(mod, "EXTRA_MODULES", []))      # further theorem files of the property (e.g. the Mathlib-using half)
    ok, log = lean.build(["PynProps." + pid] + ["PynProps." + m for m in extra] + ["pyndriver"])
    if not ok:
        # distinguish: does the model/driver still build?
        ok2, _ = lean.build(["pyndriver"])
        broken.append(dict(what="lake build PynProps.%s" % pid, detail=log[-3000:], driver_ok=ok2))
    # 3. audit
    axioms, problems = ({}, [])
    if ok:
        axioms, problems = lean.audit(pid, extra)
        for p in problems:
            broken.append(dict(what="axiom audit", detail=p))
    bad = lean.grep_forbidden()
    for h in bad:
        broken.append(dict(what="forbidden construct", detail=h))
    # 4-5. correspondence + oracles
    drv = None
    try:
        drv = lean.Driver()
    except Exception as e:
        broken.append(dict(what="driver", detail=repr(e)))
    ctx = Ctx(pid, tier, seed, drv)
    try:
        mod.run(ctx)
    except Exception as e:
        tb = traceback.extract_tb(e.__traceback__)
        inner = tb[-1].filename if tb else ""
        if "/pynapple/" in inner and "/harness/" not in inner:
            # the IMPLEMENTATION raised on an input the harness generates as valid and does not guard: that is a finding about
            # the code (a public call failing), not a harness fault; it is reported with the traceback as the replay
            traceback.print_exc()
            last_harness = [f for f in tb if "/harness/" in f.filename][-1:]
            ctx.fail("oracle", "public call raised %s: %s" % (type(e).__name__, str(e)[:200]),
                     dict(level="uncaught", where="%s:%s" % (tb[-1].filename, tb[-1].lineno),
                          harness_line="%s:%s %s" % (last_harness[0].filename, last_harness[0].lineno, last_harness[0].line) if last_harness else "",
                          cases_before=ctx.evaluations),
                     impl="".join(traceback.format_exception(type(e), e, e.__traceback__))[-1500:])
        elif "/harness/lean.py" in inner or isinstance(e, (MemoryError, KeyboardInterrupt)):
            # infrastructure (model driver, resources): not a statement about the code
            traceback.print_exc()
            print("harness error (exit 2)")
            return 2
        else:
            # the check's own code could not digest what the implementation returned (an array where a time series is promised, a
            # result of another length, ...): on the unchanged tree every such path has been exercised, so this is a property
            # failure of the code under test, reported with the traceback as its replay
            traceback.print_exc()
            last_harness = [f for f in tb if "/harness/" in f.filename][-1:]
            ctx.fail("oracle", "the implementation's result could not be evaluated by the check (%s: %s)" % (type(e).__name__, str(e)[:200]),
                     dict(level="unevaluable", harness_line="%s:%s %s" % (last_harness[0].filename, last_harness[0].lineno, last_harness[0].line) if last_harness else "",
                          cases_before=ctx.evaluations),
                     impl="".join(traceback.format_exception(type(e), e, e.__traceback__))[-1500:])
    oracle_f = [f for f in ctx.failures if f["kind"] == "oracle"]
    corr_f = [f for f in ctx.failures if f["kind"] == "corr"]
    # leanchecker in thorough
    if tier == "thorough" and ok:
        rc, out = lean.lake(["env", "leanchecker", "PynProps." + pid] + ["PynProps." + m for m in extra], timeout=3000)
        if rc != 0:
            broken.append(dict(what="leanchecker", detail=out[-1000:]))

    # 6. verdict
    violation = None
    if oracle_f:
        f = min(oracle_f, key=lambda r: len(json.dumps(jsonable(r["input"]))))
        path = write_replay(pid, "failing-input", dict(property=pid, seed=seed, tier=tier, **f,
                            also=[jsonable(x) for x in oracle_f[:5]], broken=broken))
        violation = "VIOLATION property=%s replay=%s" % (pid, path)
    elif corr_f or broken:
        path = write_replay(pid, "unverified", dict(property=pid, seed=seed, tier=tier,
                            no_failing_input_found=True,
                            broken_obligations=broken,
                            correspondence_disagreements=[jsonable(x) for x in corr_f[:10]],
                            searched="%d cases through the property oracles of this run" % ctx.evaluations))
        violation = "VIOLATION property=%s replay=%s no-failing-input-found" % (pid, path)

    # 7. evidence
    names = sorted(axioms.keys())
    obligations = len(names) + (0 if ok else 1)
    discharged = len([n for n in names if all(a in lean.ALLOWED_AXIOMS for a in axioms[n])]) if ok else 0
    cov = dict(
        obligations=max(obligations, 1), discharged=discharged,
        checker_cmd="cd lean && lake build PynProps.%s && lake env lean <#print axioms of every theorem in PynProps/%s.lean>" % (pid, pid),
        trusted_base=TRUSTED + getattr(mod, "TRUSTED_EXTRA", []),
        theorems={n: axioms[n] for n in names},
        evaluations=ctx.evaluations, distinct_nontrivial=len(ctx.sigs),
        rule=getattr(mod, "RULE", ""), samples=jsonable(ctx.samples) or ["(no case generated)"],
        traces_validated_against_impl=ctx.evaluations,
        skipped=ctx.skipped, distribution=ctx.dist,
        driver_lines=(drv.n_lines if drv else 0),
        known_finding_hits=ctx.known_hits,
        broken=[b["what"] for b in broken],
        proved=getattr(mod, "PROVED", ""), not_proved=getattr(mod, "NOT_PROVED", ""),
    )
    ev = dict(property_id=pid, tier=tier, seed=seed, level="proof", coverage=cov,
              assumptions=getattr(mod, "ASSUMPTIONS", []), wall_s=round(time.time() - t0, 2),
              violations=len(oracle_f) + len(corr_f) + len(broken))
    os.makedirs(EVID, exist_ok=True)
    json.dump(jsonable(ev), open(os.path.join(EVID, pid + ".json"), "w"), indent=1)

    for f in ctx.findings:
        if f.get("status") == "open":
            print("KNOWN-FINDING: property=%s %s [%s; hit %d times in this run]" % (
                pid, f["what"], f["id"], ctx.known_hits.get(f["id"], 0)))
    print("%s %s seed=%d: %d cases (%d distinct), %d/%d theorems, %d oracle failures, %d disagreements, %d broken obligations, %.1fs" % (
        pid, tier, seed, ctx.evaluations, len(ctx.sigs), discharged, obligations, len(oracle_f), len(corr_f), len(broken), time.time() - t0))
    if violation:
        print(violation)
        return 1
    return 0


if __name__ == "__main__":
    sys.exit(main(sys.argv))

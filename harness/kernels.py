"""Uniform invocation of the 16 modelled numba routines on integer-grid cases.
`call(kernel, args, wrap)` runs the routine found in the *current process* (compiled normally; plain Python when the
process was started with NUMBA_DISABLE_JIT=1) and returns a canonical, JSON-able result.  `line(kernel, args)` is the
model-driver line for the same case.  Times are integer seconds (grid units) scaled by 1 s, so ns = g * 1e9."""
import numpy as np
from .common import enc, ns

S = 10**9


def f(a):
    return np.asarray(a, dtype=np.float64)


def ints(a):
    return [int(round(float(v))) for v in a]


def opt(a):
    return [None if np.isnan(v) else int(v) for v in a]


def call(kernel, a, W=lambda x: x):
    from pynapple.core import _jitted_functions as J
    from pynapple.process import _process_functions as P
    from pynapple.process import correlograms as C
    from pynapple.process import spectrum as SP
    if kernel == "restrict":
        return ints(J.jitrestrict(W(f(a["ts"])), W(f(a["st"])), W(f(a["en"]))))
    if kernel == "restrictc":
        ix, c = J.jitrestrict_with_count(W(f(a["ts"])), W(f(a["st"])), W(f(a["en"])))
        return [ints(ix), ints(c)]
    if kernel == "inint":
        return opt(J.jitin_interval(W(f(a["ts"])), W(f(a["st"])), W(f(a["en"]))))
    if kernel == "valuefrom":
        return opt(J.jitvaluefrom(W(f(a["ts"])), W(f(a["tt"])), W(np.asarray(a["c"], dtype=np.int64)),
                                  W(np.asarray(a["ct"], dtype=np.int64)), W(f(a["st"])), a["mode"]))
    if kernel == "count":
        t, d = J.jitcount(W(f(a["ts"])), W(f(a["st"])), W(f(a["en"])), float(a["bs"]) / 2, np.int64)
        return [[int(round(v * 2 * 2)) for v in t], ints(d)]      # doubled centres in units of bs/2... see line()
    if kernel == "binarray":
        t, d = J.jitbin_array(W(f(a["ts"])), W(f(a["dat"]).reshape(-1, 1)), W(f(a["st"])), W(f(a["en"])), float(a["bs"]) / 2)
        return [[int(round(v * 2 * 2)) for v in t], [None if np.isnan(v) else float(v) for v in d[:, 0]]]
    if kernel == "removenan":
        s, e = J.jitremove_nan(W(f(range(len(a["mask"])))), W(np.asarray(a["mask"], dtype=bool)))
        return [ints(s), ints(e)]
    if kernel == "threshold":
        d = f([1.0 if m else 0.0 for m in a["mask"]])
        t, dd, s, e = J.jitthreshold(W(f(a["ts"])), W(d), W(f(a["st"])), W(f(a["en"])), 0.5, "above")
        return [[int(round(v * 2)) for v in s], [int(round(v * 2)) for v in e]]
    if kernel in ("intersect", "union", "diff"):
        fn = dict(intersect=J.jitintersect, union=J.jitunion, diff=J.jitdiff)[kernel]
        r = fn(W(f(a["s1"])), W(f(a["e1"])), W(f(a["s2"])), W(f(a["e2"])))
        out = [ints(r[0]), ints(r[1])]
        if kernel == "intersect":
            out.append([[int(x), int(y)] for x, y in r[2]])
        if kernel == "diff":
            out.append(ints(r[2]))
        return out
    if kernel == "unionisets":
        r = J.jitunion_isets(W(f(a["st"])), W(f(a["en"])))
        return [ints(r[0]), ints(r[1])]
    if kernel == "fixiset":
        data, warn = J._jitfix_iset(W(f(a["st"]) * 1e-3), W(f(a["en"]) * 1e-3))   # grid unit = 1 ms, so 1us trim is visible
        return [[ns(x), ns(y)] for x, y in data]
    if kernel == "xcorr":
        Cc, B = C._cross_correlogram(W(f(a["t1"])), W(f(a["t2"])), float(a["bs"]), float(a["ws"]))
        n1 = max(len(a["t1"]), 1)
        return [int(round(v * n1 * a["bs"])) for v in Cc] if len(a["t1"]) else [0 for _ in Cc]
    if kernel == "pericont":
        idx, sl, nt, sw = P._jitcontinuous_perievent(W(f(a["ts"])), W(f(a["tt"])), W(f(a["st"])), W(f(a["en"])),
                                                     W(np.asarray(a["w"], dtype=np.int64)))
        return [ints(idx), [[int(x), int(y), int(z)] for (x, y), z in zip(sl, sw)]]
    if kernel == "ovsplit":
        r = SP._overlap_split(W(f(a["st"])), W(f(a["en"])), float(a["L"]), 1.0 - a["step"] / a["L"])
        return [[int(round(x)), int(round(y))] for x, y in r]
    if kernel == "eta":
        r = P._jitperievent_trigger_average(W(f(a["ta"])), W(np.asarray(a["ca"], dtype=np.int64).reshape(-1, 1)), W(f(a["tt"])), W(f(a["dd"])),
                                            W(f(a["st"])), W(f(a["en"])), W(np.asarray(a["w"], dtype=np.int64)), float(a["bs"]))
        return [float(v) for v in r[:, 0]]
    raise ValueError(kernel)


def same(kernel, x, y):
    """equality of two canonical results; the event-trigger average is a float computation compared within 1e-9"""
    if kernel == "eta":
        return (isinstance(x, list) and isinstance(y, list) and len(x) == len(y)
                and all(abs(p - q) <= 1e-9 * max(1.0, abs(p), abs(q)) for p, q in zip(x, y)))
    import json
    return json.dumps(x) == json.dumps(y)


def line(kernel, a):
    g = lambda k: enc([v * S for v in a[k]])
    if kernel in ("restrict", "restrictc", "inint"):
        return "%s %s %s %s" % (kernel, g("ts"), g("st"), g("en"))
    if kernel == "valuefrom":
        return "valuefrom %s %s %s %s %d %d" % (g("ts"), g("tt"), enc(a["c"]), enc(a["ct"]), len(a["st"]), a["mode"])
    if kernel == "count":
        # bin size bs/2 grid units: scale everything by 2 to stay integral
        return "bin %s %s %s %s %d" % (enc([2 * v for v in a["ts"]]), enc([0 for _ in a["ts"]]), enc([2 * v for v in a["st"]]),
                                       enc([2 * v for v in a["en"]]), a["bs"])
    if kernel == "binarray":
        return "bin %s %s %s %s %d" % (enc([2 * v for v in a["ts"]]), enc(a["dat"]), enc([2 * v for v in a["st"]]),
                                       enc([2 * v for v in a["en"]]), a["bs"])
    if kernel == "removenan":
        return "removenan %s" % enc([1 if m else 0 for m in a["mask"]])
    if kernel == "threshold":
        return "threshold %s %s %s %s" % (enc(a["ts"]), enc([1 if m else 0 for m in a["mask"]]), enc(a["st"]), enc(a["en"]))
    if kernel in ("intersect", "union", "diff"):
        return "%s %s %s %s %s" % (kernel, enc(a["s1"]), enc(a["e1"]), enc(a["s2"]), enc(a["e2"]))
    if kernel == "unionisets":
        return "unionisets %s %s" % (enc(a["st"]), enc(a["en"]))
    if kernel == "fixiset":
        return "fixiset %s %s" % (enc([v * 10**6 for v in a["st"]]), enc([v * 10**6 for v in a["en"]]))
    if kernel == "xcorr":
        return "xcorr %s %s %d %d" % (enc(a["t1"]), enc(a["t2"]), a["bs"], a["ws"])
    if kernel == "pericont":
        return "pericont %s %s %s %s %d %d" % (enc(a["ts"]), enc(a["tt"]), enc(a["st"]), enc(a["en"]), a["w"][0], a["w"][1])
    if kernel == "ovsplit":
        return "ovsplit %s %s %d %d" % (enc(a["st"]), enc(a["en"]), a["L"], a["step"])
    if kernel == "eta":
        return "eta %s %s %s %s %s %s %d %d %d" % (enc(a["ta"]), enc(a["ca"]), enc(a["tt"]), enc(a["dd"]), enc(a["st"]), enc(a["en"]),
                                                   a["w"][0], a["w"][1], a["bs"])
    raise ValueError(kernel)


def parse(kernel, o):
    """model output line -> same canonical structure as call()"""
    from .common import dec, dec_opt
    if o.startswith("ERR") or o in ("bad-op", "pre-fail"):
        return o
    if kernel == "restrict":
        return dec(o)
    if kernel == "restrictc":
        a, b = o.split("|"); return [dec(a), dec(b)]
    if kernel in ("inint", "valuefrom"):
        return dec_opt(o)
    if kernel in ("count", "binarray"):
        rows = [] if o == "-" else [tuple(int(v) for v in p.split(":")) for p in o.split(",")]
        if kernel == "count":
            return [[r[0] for r in rows], [r[1] for r in rows]]
        return [[r[0] for r in rows], [None if r[1] == 0 else r[2] / r[1] for r in rows]]
    if kernel in ("removenan", "threshold", "union", "unionisets"):
        a, b = o.split("|"); return [dec(a), dec(b)]
    if kernel == "intersect":
        a, b, c = o.split("|")
        return [dec(a), dec(b), [] if c == "-" else [[int(v) for v in p.split(":")] for p in c.split(",")]]
    if kernel == "diff":
        a, b, c = o.split("|"); return [dec(a), dec(b), dec(c)]
    if kernel in ("fixiset", "ovsplit"):
        return [] if o == "-" else [[int(v) for v in p.split(":")] for p in o.split(",")]
    if kernel == "xcorr":
        return dec(o)
    if kernel == "eta":
        from fractions import Fraction
        return [] if o in ("-", "") else [float(Fraction(p)) for p in o.split(",")]
    if kernel == "pericont":
        a, b = o.split("|")
        return [dec(a), [] if b == "-" else [[int(v) for v in p.split(":")] for p in b.split(",")]]
    raise ValueError(kernel)

"""Structured generators: exhaustive order types on small grids, seeded larger cases."""
import itertools


def canonical_sets(G, maxk):
    """all canonical interval sets (s<e, e_i<s_{i+1}) with endpoints in {0..G}, <= maxk intervals"""
    out = []
    for k in range(0, maxk + 1):
        for pts in itertools.combinations(range(G + 1), 2 * k):
            out.append((list(pts[0::2]), list(pts[1::2])))
    return out


def weak_sets(G, maxk):
    """interval sets with s<=e? no: s<e, e_i < s_{i+1} is canonical; this adds sets whose
    consecutive intervals may have width 1 etc. (alias of canonical_sets, kept for clarity)"""
    return canonical_sets(G, maxk)


def multisets(G, maxn, minn=0):
    """all non-decreasing sequences of length minn..maxn over {0..G}"""
    out = []
    for n in range(minn, maxn + 1):
        out.extend(list(c) for c in itertools.combinations_with_replacement(range(G + 1), n))
    return out


def rand_canonical(rng, maxk, span):
    k = rng.randint(0, maxk)
    pts = sorted(rng.sample(range(span), 2 * k))
    return pts[0::2], pts[1::2]


def rand_sorted(rng, maxn, span, dup=0.3):
    n = rng.randint(0, maxn)
    xs = []
    for _ in range(n):
        if xs and rng.random() < dup:
            xs.append(rng.choice(xs))
        else:
            xs.append(rng.randrange(span))
    return sorted(xs)


SCALES = [(10**9, "1s"), (1953125, "2^-9s"), (1000, "1us"), (10**6, "1ms"), (2 * 10**3, "2us")]
